/-
C12W — maintainer: capacity, one order per target, request order, exact durations — in the CLOSED
WORLD: for every state reachable (`Reachable`: `simulateInit`, steps of the event loop, whole runs
`runLoop n`, `runBegin d`, scripted operations issued from outside) from a world satisfying the
invariant (`Inv`; in particular from a fresh world, `inv_of_fresh`) of the static class `S`.

`Props/C12.lean` proves the bookkeeping of `Maint` alone; here the EVENT GLUE of the world model
(`startOrders`, `startWork`, `finishWork`, `hookStart`, `hookEnd`, the scripted `workOrder`
operation, the actions `.startWork m seq` / `.finishWork m seq`) is covered.

The class `S` (decidable, `Proofs/C12WBase.lean`, preserved by every transition): scripts contain
no `create`; scripts `pause` / `unpause` / `cancel` only asset ids that are not a maintainer's; the
asset ids of the maintainers are not asset ids of devices, nor 0 (the id of the default device a
dangling target refers to); `workOrder` operations name existing maintainers; at most 256
maintainers (the action code keeps the maintainer index modulo 256 — an artefact of the model's
encoding); targets report non-negative durations and needed capacities (initially and in every
`setParams`).  Every clause is needed: see the counterexamples `*_needed` at the end.

Fresh worlds (`Fresh`, decidable): no orders (queues and active lists empty, utilisation 0),
capacities ≥ 0, `C01.Inv` of the queue, no maintainer event queued or paused, no start / finish
record and no hook result logged.  (`started = false` is not needed.)

1. `bookkeeping_reachable` — `C12.Inv ∧ C12.CapOK` of every maintainer; `capacity_respected`,
   `one_order_per_target`.
2. `active_has_one_event`, `event_has_order`, `no_maintainer_event_paused`,
   `known_order_when_executed` — every active order has exactly one pending event, live, with the
   maintainer's asset id: its START event due now, or its FINISH event; conversely every maintainer
   event belongs to an active order; hence `startWork` / `finishWork` never take their error
   branches.
3. `start_step`, `finish_step`, `exact_duration` — the FINISH event is scheduled for exactly
   `now + duration` (read when the START event runs) with priority `pFinishWork`; it stays in the
   queue untouched until it is executed, and then the FINISH record is stamped with exactly that
   time; `log_well_bracketed`: the log of every maintainer is well bracketed, its open START
   records are exactly the orders in progress.
4. `start_step` / `finish_step` / `other_step` — hooks exactly once, cost charged once, nobody
   else calls a hook; `hookLog_reachable`, `hook_counts`, `in_progress_count`.
5. `nothing_startable_reachable`, `no_starvation_at_clock_advance`, `queue_in_request_order`, and
   START events run at the time of the scan (`start_step`: the clock does not advance while a START
   event is pending; `all_active_in_progress_at_clock_advance`).
-/
import SimProc.Proofs.C12WStep
import SimProc.Props.C16W

namespace SimProc
namespace C12W
open World

/-! ### hypotheses -/

instance (l : List Event) : Decidable (SortedEv l) := by unfold SortedEv; infer_instance

instance (s : Env) : Decidable (C01.Inv s) :=
  decidable_of_iff (SortedEv s.events ∧ (∀ e ∈ s.events, s.now ≤ e.time) ∧
      ((s.events ++ s.paused).map Event.uid).Nodup ∧ ∀ e ∈ s.events ++ s.paused, e.uid < s.nextUid)
    ⟨fun ⟨a, b, c, d⟩ => ⟨a, b, c, d⟩, fun h => ⟨h.sorted, h.future, h.uids, h.fresh⟩⟩

def capNonneg (m : Maint) : Bool :=
  match m.cap with
  | some c => decide (0 ≤ c)
  | none => true

/-- **Fresh worlds.** -/
def Fresh (w : World) : Prop :=
  (∀ mw ∈ w.maints, mw.m.queue = [] ∧ mw.m.active = [] ∧ mw.m.util = 0 ∧ capNonneg mw.m = true) ∧
  C01.Inv w.env ∧ (∀ e ∈ w.env.events ++ w.env.paused, isM e = false) ∧
  w.recs.filter isSF = [] ∧ w.results.filter isHook = []

instance : DecidablePred Fresh := fun w => by unfold Fresh; infer_instance

/-- **The closed-world invariant** between events: the class, and `G [] []`
(`Proofs/C12WDefs.lean`). -/
structure Inv (w : World) : Prop where
  s : S w
  g : G [] [] w

theorem skeys_nil_of_noM {l : List Event} (h : ∀ e ∈ l, isM e = false) (m : Nat) : skeys m l = [] := by
  rw [← skeys_filter, List.filter_eq_nil_iff.2 (fun e he => by simp [h e he])]
  rfl

/-- A fresh world of the class satisfies the invariant, and its log corresponds to its hook
results (both empty). -/
theorem inv_of_fresh {w : World} (hS : S w) (hF : Fresh w) : Inv w ∧ HookLog w := by
  obtain ⟨hm, hinv, hev, hrec, hres⟩ := hF
  have hmaint : ∀ m, (w.maint m).queue = [] ∧ (w.maint m).active = [] ∧ (w.maint m).util = 0 ∧
      capNonneg (w.maint m) = true := by
    intro m
    rcases Nat.lt_or_ge m w.maints.length with h | h
    · have : w.maint m = (w.maints[m]).m := by
        unfold World.maint; rw [List.getD_eq_getElem?_getD, List.getElem?_eq_getElem h]; rfl
      rw [this]
      exact hm _ (List.getElem_mem h)
    · rw [maint_of_ge h]; exact ⟨rfl, rfl, rfl, rfl⟩
  refine ⟨⟨hS, ⟨⟨?_, ?_, hinv, ?_, ?_, ?_, ?_⟩, ?_, ?_⟩⟩, ?_⟩
  · intro m
    obtain ⟨hq, ha, hu, _⟩ := hmaint m
    constructor <;> simp [hq, ha, hu, C12.sumNeeded]
  · intro m c hc
    obtain ⟨_, _, hu, hcap⟩ := hmaint m
    unfold capNonneg at hcap
    rw [hc] at hcap
    rw [hu]
    simpa using hcap
  · exact fun e he => hev e (List.mem_append_right _ he)
  · intro e he f m s hk
    have := hev e (List.mem_append_left _ he)
    rw [isM_false_iff, hk] at this
    cases this
  · intro m
    rw [skeys_nil_of_noM (fun e he => hev e (List.mem_append_left _ he)), (hmaint m).2.1]
    simp
  · intro m
    refine ⟨[], ?_, ?_⟩
    · rw [← openOf_filter, hrec]; rfl
    · unfold running; rw [(hmaint m).2.1]; simp
  · intro m o ho
    rw [(hmaint m).1] at ho; cases ho
  · intro m
    rw [(hmaint m).1]; simp
  · unfold HookLog; rw [hrec, hres]; rfl

/-- **Reachable states**: initialisation (`System.simulate`'s first part), any number of events
(`Environment.step`, or whole runs of the event loop `runLoop` with any fuel), beginnings of
`Environment.run(d)`, and operations of the class issued from outside between events (one at a
time, or as a script whose results are logged). -/
inductive Reachable (w0 : World) : World → Prop
  | refl : Reachable w0 w0
  | init {w : World} : Reachable w0 w → Reachable w0 w.simulateInit
  | step {w w' : World} {e : Event} : Reachable w0 w → w.step = some (e, w') → Reachable w0 w'
  | loop {w : World} (n : Nat) : Reachable w0 w → Reachable w0 (runLoop n w)
  | run {w : World} (d : Int) : Reachable w0 w → Reachable w0 (w.runBegin d).1
  | op {w : World} (o : Op) : Reachable w0 w → opOK (aids w) w.maints.length o = true →
      Reachable w0 (w.applyOp o).1
  | ops {w : World} (l : List Op) : Reachable w0 w →
      (∀ o ∈ l, opOK (aids w) w.maints.length o = true) → Reachable w0 (w.applyOps l)

theorem Reachable.trans {w0 w1 w2 : World} (h1 : Reachable w0 w1) (h2 : Reachable w1 w2) :
    Reachable w0 w2 := by
  induction h2 with
  | refl => exact h1
  | init _ ih => exact ih.init
  | step _ hs ih => exact ih.step hs
  | loop n _ ih => exact ih.loop n
  | run d _ ih => exact ih.run d
  | op o _ ho ih => exact ih.op o ho
  | ops l _ ho ih => exact ih.ops l ho

/-- `System.simulate(d)` (initialise, begin the run, loop) ends in a reachable state. -/
theorem reachable_simulate (n : Nat) (d : Int) (w0 : World) :
    Reachable w0 (runLoop n (w0.simulateInit.runBegin d).1) :=
  .loop n (.run d (.init .refl))

/-- Everything the transitions keep (`Proofs/C12WStep.lean`), along any path. -/
theorem tr_reachable {w0 w : World} (hi : Inv w0) (hr : Reachable w0 w) : Tr w0 w := by
  induction hr with
  | refl => exact Tr.refl hi.s hi.g
  | init _ ih => exact ih.trans (tr_simulateInit ih.s ih.g)
  | step _ hs ih => exact ih.trans (tr_step ih.s ih.g hs)
  | loop n _ ih => exact ih.trans (tr_runLoop n ih.s ih.g)
  | run d _ ih => exact ih.trans (tr_runBegin ih.s ih.g d)
  | op o _ ho ih => exact ih.trans (tr_applyOp ih.s ih.g o ho)
  | ops l _ ho ih => exact ih.trans (tr_applyOps ih.s ih.g l ho)

/-- **The invariant holds in every reachable state.** -/
theorem inv_reachable {w0 w : World} (hi : Inv w0) (hr : Reachable w0 w) : Inv w :=
  ⟨(tr_reachable hi hr).s, (tr_reachable hi hr).g⟩

/-- The class is kept; maintainers, their asset ids and the scripts never change. -/
theorem class_reachable {w0 w : World} (hi : Inv w0) (hr : Reachable w0 w) :
    S w ∧ aids w = aids w0 ∧ w.maints.length = w0.maints.length ∧ w.scripts = w0.scripts :=
  ⟨(tr_reachable hi hr).s, (tr_reachable hi hr).aids, length_of_aids_eq (tr_reachable hi hr).aids,
    (tr_reachable hi hr).scr⟩

/-- One event preserves the invariant. -/
theorem inv_step {w w' : World} {e : Event} (hi : Inv w) (h : w.step = some (e, w')) : Inv w' :=
  inv_reachable hi (.step .refl h)

/-- Two events of the same order in a queue whose keys are pairwise distinct are the same. -/
theorem skeys_unique {l : List Event} {m s : Nat} (hnd : (skeys m l).Nodup) {e e' : Event}
    (he : e ∈ l) (he' : e' ∈ l) {f f' : Bool} (hk : ekey e = some (f, m, s))
    (hk' : ekey e' = some (f', m, s)) : e' = e := by
  induction l with
  | nil => cases he
  | cons x xs ih =>
    rw [skeys_cons] at hnd
    have hnd' := List.nodup_append.1 hnd
    have hx : ∀ y ∈ xs, ∀ fy, ekey y = some (fy, m, s) → ∀ fx, ekey x = some (fx, m, s) → False := by
      intro y hy fy hky fx hkx
      have h2 : s ∈ skeys m xs := mem_skeys.2 ⟨y, hy, fy, hky⟩
      refine hnd'.2.2 s ?_ s h2 rfl
      rw [hkx]; simp
    rcases List.mem_cons.1 he with rfl | he1 <;> rcases List.mem_cons.1 he' with rfl | he1'
    · rfl
    · exact absurd (hx e' he1' f' hk' f hk) id
    · exact absurd (hx e he1 f hk f' hk') id
    · exact ih hnd'.2.1 he1 he1'

section
variable {w0 w : World} (hi : Inv w0) (hr : Reachable w0 w)
include hi hr

/-! ### 1. the bookkeeping invariant of every maintainer -/

/-- **1.** `C12.Inv` (utilisation = sum over the active orders, one active order per target, no
duplicate (target, tag), distinct sequence numbers, needed capacities ≥ 0) and `C12.CapOK` of every
maintainer, in every reachable state. -/
theorem bookkeeping_reachable (m : Nat) : C12.Inv (w.maint m) ∧ C12.CapOK (w.maint m) :=
  ⟨(inv_reachable hi hr).g.g0.inv m, (inv_reachable hi hr).g.g0.cap m⟩

/-- A maintainer never works on more than its capacity allows: the capacity needed by its active
orders together is its utilisation, which is at most its capacity. -/
theorem capacity_respected (m : Nat) (c : Int) (hc : (w.maint m).cap = some c) :
    C12.sumNeeded (w.maint m).active = (w.maint m).util ∧ (w.maint m).util ≤ c :=
  ⟨((bookkeeping_reachable hi hr m).1.utilEq).symm, (bookkeeping_reachable hi hr m).2 c hc⟩

/-- A maintainer never has two active orders for the same target. -/
theorem one_order_per_target (m : Nat) (a b : Order) (ha : a ∈ (w.maint m).active)
    (hb : b ∈ (w.maint m).active) (ht : a.target = b.target) : a = b :=
  C12.one_per_target _ (bookkeeping_reachable hi hr m).1 a b ha hb ht

/-! ### 2. orders and events correspond -/

/-- **2a.** Every active order has exactly one pending event: it is live, carries the
maintainer's asset id, and is either the START event (due at the current time, priority
`pStartWork`: the scan started the order, `_start_work_order` has not run yet) or the FINISH
event (priority `pFinishWork`, not in the past).  Any pending event of this order is that one. -/
theorem active_has_one_event (m : Nat) (o : Order) (ho : o ∈ (w.maint m).active) :
    ∃ e ∈ w.env.events, e.cancelled = false ∧ e.asset = aidOf w m ∧
      ((ekey e = some (false, m, o.seq) ∧ e.time = w.now ∧ e.prio = pStartWork) ∨
       (ekey e = some (true, m, o.seq) ∧ w.now ≤ e.time ∧ e.prio = pFinishWork)) ∧
      ∀ e' ∈ w.env.events, (∃ f, ekey e' = some (f, m, o.seq)) → e' = e := by
  have g := (inv_reachable hi hr).g.g0
  have h1 : o.seq ∈ skeys m w.env.events := by
    have := (g.perm m).mem_iff.2 (List.mem_map.2 ⟨o, ho, rfl⟩)
    simpa using this
  obtain ⟨e, he, f, hk⟩ := mem_skeys.1 h1
  have hev := g.ev e he f m o.seq hk
  refine ⟨e, he, hev.1, hev.2.1, ?_, ?_⟩
  · cases f
    · exact Or.inl ⟨hk, (hev.2.2.1 rfl).1, (hev.2.2.1 rfl).2⟩
    · exact Or.inr ⟨hk, g.env.future e he, hev.2.2.2 rfl⟩
  · have hnd : (skeys m w.env.events).Nodup := by
      have := g.nodup_lhs m; simpa using this
    intro e' he' ⟨f', hk'⟩
    exact skeys_unique hnd he he' hk hk'

/-- **2b.** Conversely every pending maintainer event belongs to an active order of an existing
maintainer — the order `findActive` finds — and is live. -/
theorem event_has_order (e : Event) (he : e ∈ w.env.events) (f : Bool) (m s : Nat)
    (hk : ekey e = some (f, m, s)) :
    m < w.maints.length ∧ e.cancelled = false ∧
      ∃ o, (w.maint m).findActive s = some o ∧ o ∈ (w.maint m).active ∧ o.seq = s := by
  have g := (inv_reachable hi hr).g.g0
  refine ⟨(g.lt_of_key he hk).1, (g.ev e he f m s hk).1, ?_⟩
  obtain ⟨o, ho, hs⟩ := (g.lt_of_key he hk).2
  have h2 : s ∈ (w.maint m).active.map (·.seq) := List.mem_map.2 ⟨o, ho, hs⟩
  unfold Maint.findActive
  cases hf : (w.maint m).active.find? (fun o => o.seq == s) with
  | none =>
    rw [List.find?_eq_none] at hf
    exact absurd (by simpa using hs) (hf o ho)
  | some o' =>
    exact ⟨o', rfl, List.mem_of_find?_eq_some hf, by simpa using List.find?_some hf⟩

/-- **2c.** The events of the maintainers are never paused (and never cancelled: 2a, 2b). -/
theorem no_maintainer_event_paused : ∀ e ∈ w.env.paused, ekey e = none := fun e he =>
  (isM_false_iff e).1 ((inv_reachable hi hr).g.g0.paused e he)

/-- **2d.** Hence `_start_work_order` / `_finish_work_order` always find their order: whenever the
event loop executes a maintainer event, `findActive` succeeds — the error branches
"start-unknown-order" / "finish-unknown-order" of the model are unreachable. -/
theorem known_order_when_executed {w' : World} {e : Event} (hs : w.step = some (e, w')) (f : Bool)
    (m s : Nat) (hk : ekey e = some (f, m, s)) :
    e.live = true ∧ ∃ o, (w.maint m).findActive s = some o ∧ o.seq = s := by
  have hI := inv_reachable hi hr
  obtain ⟨_, _, _, _, hmem, _⟩ := step_open hI.s hI.g hs
  obtain ⟨_, hc, o, hf, _, ho⟩ := event_has_order hi hr e hmem f m s hk
  exact ⟨by simp [Event.live, hc], o, hf, ho⟩

/-! ### 5. no starvation -/

/-- **5.** In every reachable state no queued order of any maintainer is startable (capacity
suffices and its target has no active order): whatever can start has been started by the scan
that ends every `create_work_order` and every `_finish_work_order`. -/
theorem nothing_startable_reachable (m : Nat) :
    ∀ o ∈ (w.maint m).queue, (w.maint m).startable o = false :=
  (inv_reachable hi hr).g.ns m

/-- Every queue is in request order: sequence numbers (the creation index of the `_WorkOrder`)
increase along it.  Every scan goes through the queue front to back (`C12.scan_order`), so waiting
orders are started in request order, skipping exactly those that do not fit or whose target is
busy. -/
theorem queue_in_request_order (m : Nat) :
    ((w.maint m).queue.map (·.seq)).Pairwise (· < ·) :=
  (inv_reachable hi hr).g.qs m

/-- In particular when the clock is about to advance (no live event is due at the current time). -/
theorem no_starvation_at_clock_advance
    (_hadv : ∀ e ∈ w.env.events, e.live = true → w.now < e.time) (m : Nat) :
    ∀ o ∈ (w.maint m).queue, (w.maint m).fits o = false ∨ (w.maint m).targetFree o = false := by
  intro o ho
  have := nothing_startable_reachable hi hr m o ho
  simp only [Maint.startable, Bool.and_eq_false_iff] at this
  exact this

/-- … and then no order is waiting for its START action either: every active order is in progress
(has its FINISH event pending). -/
theorem all_active_in_progress_at_clock_advance
    (hadv : ∀ e ∈ w.env.events, e.live = true → w.now < e.time) (m : Nat) (o : Order)
    (ho : o ∈ (w.maint m).active) : ∃ e ∈ w.env.events, ekey e = some (true, m, o.seq) := by
  obtain ⟨e, he, hc, _, h | h, _⟩ := active_has_one_event hi hr m o ho
  · have := hadv e he (by simp [Event.live, hc])
    omega
  · exact ⟨e, he, h.1⟩

end

/-! ### 3. / 4. the two maintainer events: exact duration, hooks and cost exactly once -/

/-- The class has no `create`. -/
theorem noCreate_of_S {w : World} (h : S w) : C15W.NoCreate w := by
  intro l hl op hop
  have := h.scripts l hl op hop
  cases op <;> first | rfl | (simp [opOK] at this)

/-- **`_start_work_order`** — the step that executes the START event of order `s` of maintainer
`m`: the order is found (no error branch); the clock has not advanced since the scan that started
the order; exactly one START record (stamped now) and exactly one `start_work(tag)` hook result are
appended (whatever the hook does — shut a machine down, run a script that creates further orders);
the cost the target reports now is charged once (`C12.cost_once`); and the FINISH event is scheduled
for exactly `now + duration`, the duration the target reports now, with priority `pFinishWork`,
live, with the maintainer's asset id. -/
theorem start_step {w w' : World} {e : Event} {m s : Nat} (hI : Inv w)
    (hs : w.step = some (e, w')) (hk : ekey e = some (false, m, s)) :
    ∃ o, (w.maint m).findActive s = some o ∧ o ∈ (w.maint m).active ∧ o.seq = s ∧
      e.time = w.now ∧ w'.now = w.now ∧
      w'.recs.filter isSF = w.recs.filter isSF ++ [.workOrder 1 m w.now o.target o.tag o.info] ∧
      w'.results.filter isHook = w.results.filter isHook ++ [.hook true o.target o.tag] ∧
      (w'.maint m).val = ((w.maint m).startCost w.now (w.targetParams o.target o.tag).2.2).val ∧
      (w'.maint m).val.value = (w.maint m).val.value - (w.targetParams o.target o.tag).2.2 ∧
      o ∈ (w'.maint m).active ∧
      (∃ e' ∈ w'.env.events, ekey e' = some (true, m, s) ∧
        e'.time = w.now + (w.targetParams o.target o.tag).1 ∧ e'.prio = pFinishWork ∧
        e'.cancelled = false ∧ e'.asset = aidOf w m) ∧
      Life m o (w.now + (w.targetParams o.target o.tag).1) w' := by
  obtain ⟨env', hst, hnow, htime, hw', o, sp⟩ := step_start hI.s hI.g hs hk
  have hn1 : ({ w with env := env' } : World).now = w.now := by
    show env'.now = w.env.now
    rw [hnow, htime]; rfl
  have hS1 : S ({ w with env := env' } : World) := hI.s.of_eq rfl rfl rfl rfl
  have hcost := C16W.maintainer_start_step { w with env := env' } m s o (noCreate_of_S hS1)
    sp.found (lt_of_active_ne sp.mem)
  rw [← hw', hn1] at hcost
  obtain ⟨l, hl⟩ := sp.grow m
  have hoa : o ∈ (w'.maint m).active := by rw [hl]; exact List.mem_append_left _ sp.mem
  obtain ⟨e', he', hk', ht', hp', hc', ha'⟩ := sp.fin
  rw [hn1] at ht'
  refine ⟨o, sp.found, sp.mem, sp.seq, htime, sp.now.trans hn1, ?_, sp.hooks, hcost.1, hcost.2, hoa,
    ⟨e', he', hk', ht', hp', hc', ha'⟩, Or.inl ⟨hoa, e', he', by rw [sp.seq]; exact hk', ht'⟩⟩
  have := sp.sf
  rw [hn1] at this
  exact this

/-- **`_finish_work_order`** — the step that executes the FINISH event of order `s` of maintainer
`m`: the order is found; exactly one `end_work(tag)` hook result and exactly one FINISH record,
stamped with the time of the event, are appended; the order leaves the active list, all other
active orders stay. -/
theorem finish_step {w w' : World} {e : Event} {m s : Nat} (hI : Inv w)
    (hs : w.step = some (e, w')) (hk : ekey e = some (true, m, s)) :
    ∃ o, (w.maint m).findActive s = some o ∧ o ∈ (w.maint m).active ∧ o.seq = s ∧
      w'.now = e.time ∧
      w'.recs.filter isSF = w.recs.filter isSF ++ [.workOrder 2 m e.time o.target o.tag o.info] ∧
      w'.results.filter isHook = w.results.filter isHook ++ [.hook false o.target o.tag] ∧
      (∀ x ∈ (w'.maint m).active, x.seq ≠ s) ∧
      (∀ m' x, x ∈ (w.maint m').active → (m' = m → x.seq ≠ s) → x ∈ (w'.maint m').active) := by
  obtain ⟨env', hst, hnow, hw', o, sp⟩ := step_finish hI.s hI.g hs hk
  have hn1 : ({ w with env := env' } : World).now = e.time := hnow
  refine ⟨o, sp.found, sp.mem, sp.seq, sp.now.trans hn1, ?_, sp.hooks, sp.gone, sp.stay⟩
  have := sp.sf
  rw [hn1] at this
  exact this

/-- **Nobody else** calls a hook or writes a start / finish record: a step that executes any
other event (or a cancelled one) leaves both logs alone, keeps every pending maintainer event and
only lets active lists grow (orders created and started by scripts). -/
theorem other_step {w w' : World} {e : Event} (hI : Inv w) (hs : w.step = some (e, w'))
    (hk : ekey e = none) :
    w'.results.filter isHook = w.results.filter isHook ∧
    w'.recs.filter isSF = w.recs.filter isSF ∧
    (∀ m, ∃ l, (w'.maint m).active = (w.maint m).active ++ l) ∧
    (∀ e' ∈ w.env.events, e' ≠ e → isM e' = true → e' ∈ w'.env.events) := by
  obtain ⟨env', hst, hS1, g1, hmem, _, _, _⟩ := step_open hI.s hI.g hs
  obtain ⟨_, hst', p⟩ := step_other hI.s hI.g hs hk
  rw [hst] at hst'
  simp only [Option.some.injEq, Prod.mk.injEq, true_and] at hst'
  subst hst'
  refine ⟨by rw [p.hooks]; simp, p.sf, p.grow, ?_⟩
  intro e' he' hne hm
  obtain ⟨es, heq, henv'⟩ := Env.step_some.mp hst
  have g1' : G [] [] ({ w with env := env' } : World) := by
    have := g1; unfold flightX flightR at this; rw [hk] at this; exact this
  refine p.keep _ _ g1' e' ?_ hm
  rw [heq] at he'
  rcases List.mem_cons.1 he' with h | h
  · exact absurd h hne
  · subst henv'; exact h

/-- **3. Exact duration.**  Let the START event of order `o` of maintainer `m` be executed in
state `w` (time `t = w.now`), and let `dur` be the duration the target reports at that moment.
Then in EVERY state reachable afterwards the START record stamped `t` is in the log, and either the
order is still active and its FINISH event is pending for exactly `t + dur`, or a FINISH record of
the order stamped exactly `t + dur` is in the log — whatever happens in between (parameter changes,
other orders, shutdowns, …). -/
theorem exact_duration {w w' w2 : World} {e : Event} {m s : Nat} (hI : Inv w)
    (hs : w.step = some (e, w')) (hk : ekey e = some (false, m, s)) (hr : Reachable w' w2) :
    ∃ o, (w.maint m).findActive s = some o ∧
      Rec.workOrder 1 m w.now o.target o.tag o.info ∈ w2.recs ∧
      ((o ∈ (w2.maint m).active ∧ ∃ e2 ∈ w2.env.events, ekey e2 = some (true, m, s) ∧
          e2.time = w.now + (w.targetParams o.target o.tag).1) ∨
        Rec.workOrder 2 m (w.now + (w.targetParams o.target o.tag).1) o.target o.tag o.info ∈
          w2.recs) := by
  obtain ⟨o, hf, _, hseq, _, _, hsf, _, _, _, _, _, hlife⟩ := start_step hI hs hk
  have t := tr_reachable (inv_step hI hs) hr
  have := t.life m o _ hlife
  obtain ⟨l, hl⟩ := t.sfm
  refine ⟨o, hf, ?_, ?_⟩
  · refine mem_recs_of_sf hl rfl (Or.inl ?_)
    exact mem_recs_of_sf (w := w) hsf rfl (Or.inr (List.mem_singleton.2 rfl))
  · unfold Life at this
    rw [hseq] at this
    exact this

/-! ### the log of a maintainer -/

theorem foldl_openStep_none (m : Nat) (l : List Rec) : l.foldl (openStep m) none = none := by
  induction l with
  | nil => rfl
  | cons r l ih =>
    rw [List.foldl_cons]
    have : openStep m none r = none := by
      cases r <;> try rfl
      rename_i k m' t tgt tag info
      simp only [openStep]
      repeat' split
      all_goals rfl
    rw [this, ih]

/-- A well-bracketed log has well-bracketed prefixes. -/
theorem openOf_prefix {m : Nat} {p q : List Rec} {L : List OKey} (h : openOf m (p ++ q) = some L) :
    ∃ L0, openOf m p = some L0 := by
  unfold openOf at h ⊢
  rw [List.foldl_append] at h
  cases hp : p.foldl (openStep m) (some []) with
  | none => rw [hp, foldl_openStep_none] at h; cases h
  | some L0 => exact ⟨L0, rfl⟩

def cntSF (k m : Nat) (l : List Rec) : Nat :=
  l.countP (fun r => match r with
    | .workOrder k' m' _ _ _ _ => k' == k && m' == m
    | _ => false)

theorem cntSF_cons (k m : Nat) (r : Rec) (l : List Rec) :
    cntSF k m (r :: l) = cntSF k m [r] + cntSF k m l := by
  unfold cntSF
  rw [List.countP_cons, List.countP_singleton]
  omega

/-- What one record does to the open entries. -/
theorem openStep_cases {m : Nat} {A A' : List OKey} {r : Rec} (h : openStep m (some A) r = some A') :
    (A' = A ∧ cntSF 1 m [r] = 0 ∧ cntSF 2 m [r] = 0 ∧
      ∀ t tgt tag info, r ≠ .workOrder 1 m t tgt tag info) ∨
    (∃ t tgt tag info, r = .workOrder 1 m t tgt tag info ∧ A' = A ++ [(tgt, tag, info)]) ∨
    (∃ t tgt tag info, r = .workOrder 2 m t tgt tag info ∧ (tgt, tag, info) ∈ A ∧
      A' = A.erase (tgt, tag, info)) := by
  cases r with
  | workOrder k' m' t tgt tag info =>
    simp only [openStep] at h
    by_cases hm : m' = m
    · subst hm
      simp only [if_true] at h
      by_cases h1 : k' = 1
      · subst h1
        simp only [if_true, Option.map_some, Option.some.injEq] at h
        exact Or.inr (Or.inl ⟨t, tgt, tag, info, rfl, h.symm⟩)
      · by_cases h2 : k' = 2
        · subst h2
          simp only [if_neg h1, if_true, Option.bind_some] at h
          by_cases hmem : (tgt, tag, info) ∈ A
          · simp only [if_pos hmem, Option.some.injEq] at h
            exact Or.inr (Or.inr ⟨t, tgt, tag, info, rfl, hmem, h.symm⟩)
          · simp only [if_neg hmem] at h; cases h
        · simp only [if_neg h1, if_neg h2, Option.some.injEq] at h
          refine Or.inl ⟨h.symm, ?_, ?_, ?_⟩
          · simp [cntSF, h1]
          · simp [cntSF, h2]
          · intro t' a b c e; cases e; exact h1 rfl
    · simp only [if_neg hm, Option.some.injEq] at h
      refine Or.inl ⟨h.symm, ?_, ?_, ?_⟩
      · simp [cntSF, hm]
      · simp [cntSF, hm]
      · intro t' a b c e; cases e; exact hm rfl
  | _ =>
    simp only [openStep, Option.some.injEq] at h
    exact Or.inl ⟨h.symm, rfl, rfl, fun _ _ _ _ e => by cases e⟩

theorem foldl_openStep_some {m : Nat} {r : Rec} {l : List Rec} {acc : Option (List OKey)}
    {L : List OKey} (h : (r :: l).foldl (openStep m) acc = some L) :
    ∃ A A', acc = some A ∧ openStep m (some A) r = some A' ∧ l.foldl (openStep m) (some A') = some L := by
  rw [List.foldl_cons] at h
  cases acc with
  | none =>
    have : openStep m none r = none := by
      have := foldl_openStep_none m [r]
      simpa using this
    rw [this, foldl_openStep_none] at h; cases h
  | some A =>
    cases hA' : openStep m (some A) r with
    | none => rw [hA', foldl_openStep_none] at h; cases h
    | some A' => exact ⟨A, A', rfl, hA', hA' ▸ h⟩

/-- Every open entry was there at the beginning or comes from a START record. -/
theorem foldl_openStep_mem {m : Nat} {l : List Rec} {A L : List OKey}
    (h : l.foldl (openStep m) (some A) = some L) :
    ∀ k ∈ L, k ∈ A ∨ ∃ t1, Rec.workOrder 1 m t1 k.1 k.2.1 k.2.2 ∈ l := by
  induction l generalizing A with
  | nil =>
    have : A = L := by simpa using h
    subst this
    exact fun k hk => Or.inl hk
  | cons r l ih =>
    obtain ⟨A0, A', hA0, hstep, hrest⟩ := foldl_openStep_some h
    cases hA0
    intro k hk
    rcases ih hrest k hk with h1 | ⟨t1, h1⟩
    · rcases openStep_cases hstep with ⟨rfl, _⟩ | ⟨t, tgt, tag, info, rfl, rfl⟩ |
        ⟨t, tgt, tag, info, rfl, _, rfl⟩
      · exact Or.inl h1
      · rcases List.mem_append.1 h1 with h2 | h2
        · exact Or.inl h2
        · simp only [List.mem_singleton] at h2
          subst h2
          exact Or.inr ⟨t, List.mem_cons_self⟩
      · exact Or.inl (List.mem_of_mem_erase h1)
    · exact Or.inr ⟨t1, List.mem_cons_of_mem _ h1⟩

/-- Every open entry comes from a START record. -/
theorem openOf_mem {m : Nat} {p : List Rec} {L : List OKey} (h : openOf m p = some L) :
    ∀ k ∈ L, ∃ t1, Rec.workOrder 1 m t1 k.1 k.2.1 k.2.2 ∈ p := by
  intro k hk
  rcases foldl_openStep_mem h k hk with h1 | h1
  · cases h1
  · exact h1

theorem foldl_openStep_count {m : Nat} {l : List Rec} {A L : List OKey}
    (h : l.foldl (openStep m) (some A) = some L) :
    cntSF 1 m l + A.length = cntSF 2 m l + L.length := by
  induction l generalizing A with
  | nil =>
    have : A = L := by simpa using h
    subst this; rfl
  | cons r l ih =>
    obtain ⟨A0, A', hA0, hstep, hrest⟩ := foldl_openStep_some h
    cases hA0
    have := ih hrest
    rw [cntSF_cons 1, cntSF_cons 2]
    rcases openStep_cases hstep with ⟨rfl, h1, h2, _⟩ | ⟨t, tgt, tag, info, rfl, rfl⟩ |
      ⟨t, tgt, tag, info, rfl, hmem, rfl⟩
    · omega
    · have e1 : cntSF 1 m [Rec.workOrder 1 m t tgt tag info] = 1 := by simp [cntSF]
      have e2 : cntSF 2 m [Rec.workOrder 1 m t tgt tag info] = 0 := by simp [cntSF]
      rw [List.length_append, List.length_singleton] at this
      omega
    · have e1 : cntSF 1 m [Rec.workOrder 2 m t tgt tag info] = 0 := by simp [cntSF]
      have e2 : cntSF 2 m [Rec.workOrder 2 m t tgt tag info] = 1 := by simp [cntSF]
      have := List.length_erase_of_mem hmem
      have hpos := List.length_pos_of_mem hmem
      omega

/-- In a well-bracketed log: START records = FINISH records + open entries. -/
theorem openOf_count {m : Nat} {l : List Rec} {L : List OKey} (h : openOf m l = some L) :
    cntSF 1 m l = cntSF 2 m l + L.length := by
  have := foldl_openStep_count h
  simpa using this

/-- The orders of maintainer `m` in progress: active, FINISH event pending. -/
def inProgress (w : World) (m : Nat) : List Order :=
  (w.maint m).active.filter (fun o => (fkeys m w.env.events).contains o.seq)

theorem running_nil (w : World) (m : Nat) : running w [] m = inProgress w m := by
  unfold running inProgress
  simp

section
variable {w0 w : World} (hi : Inv w0) (hr : Reachable w0 w)
include hi hr

/-- **The log of every maintainer is well bracketed**, and its open START records are exactly the
orders in progress (`okey`: target, tag, info). -/
theorem log_well_bracketed (m : Nat) :
    ∃ L, openOf m w.recs = some L ∧ L.Perm ((inProgress w m).map okey) := by
  obtain ⟨L, h1, h2⟩ := (inv_reachable hi hr).g.g0.log m
  exact ⟨L, h1, running_nil w m ▸ h2⟩

/-- For every FINISH record of maintainer `m` in the log there is an earlier START record of `m`
with the same target, tag and info (`exact_duration` relates their time stamps). -/
theorem finish_has_earlier_start (m : Nat) (p q : List Rec) (t2 : Int) (tgt : Nat) (tag info : Int)
    (h : w.recs = p ++ Rec.workOrder 2 m t2 tgt tag info :: q) :
    ∃ t1, Rec.workOrder 1 m t1 tgt tag info ∈ p := by
  obtain ⟨L, h1, _⟩ := log_well_bracketed hi hr m
  rw [h, show p ++ Rec.workOrder 2 m t2 tgt tag info :: q =
    (p ++ [Rec.workOrder 2 m t2 tgt tag info]) ++ q by simp] at h1
  obtain ⟨L1, h2⟩ := openOf_prefix h1
  rw [openOf_append_one] at h2
  cases hp : openOf m p with
  | none =>
    rw [hp] at h2
    simp [openStep] at h2
  | some L0 =>
    rw [hp] at h2
    have hmem : (tgt, tag, info) ∈ L0 := by
      rcases openStep_cases h2 with ⟨_, _, hc, _⟩ | ⟨t, a, b, c, e, _⟩ | ⟨t, a, b, c, e, hm, _⟩
      · simp [cntSF] at hc
      · cases e
      · cases e; exact hm
    exact openOf_mem hp _ hmem

/-- **(#START − #FINISH records) = number of orders in progress**, per maintainer. -/
theorem in_progress_count (m : Nat) :
    cntSF 1 m w.recs = cntSF 2 m w.recs + (inProgress w m).length := by
  obtain ⟨L, h1, h2⟩ := log_well_bracketed hi hr m
  rw [openOf_count h1, h2.length_eq, List.length_map]

end

/-! ### 4. hook results and records correspond -/

/-- The hook results, in order, are exactly the start / finish records, in order (`HookLog`), in
every state reachable from a state where this holds (e.g. a fresh world, `inv_of_fresh`). -/
theorem hookLog_reachable {w0 w : World} (hi : Inv w0) (hh : HookLog w0) (hr : Reachable w0 w) :
    HookLog w := (tr_reachable hi hr).hl hh

def nHook (b : Bool) (w : World) : Nat :=
  w.results.countP (fun r => match r with
    | .hook b' _ _ => b' == b
    | _ => false)

def nRec (k : Nat) (w : World) : Nat :=
  w.recs.countP (fun r => match r with
    | .workOrder k' _ _ _ _ _ => k' == k
    | _ => false)

set_option linter.unusedSimpArgs false in
theorem nHook_eq (b : Bool) (w : World) :
    nHook b w = ((w.results.filter isHook).map hkey).countP (fun k => k.1 == b) := by
  unfold nHook
  induction w.results with
  | nil => rfl
  | cons r l ih =>
    cases r <;> simp [List.filter_cons, isHook, hkey, List.countP_cons, ih]

set_option linter.unusedSimpArgs false in
theorem nRec_eq (w : World) :
    nRec 1 w = ((w.recs.filter isSF).map rkey).countP (fun k => k.1 == true) ∧
    nRec 2 w = ((w.recs.filter isSF).map rkey).countP (fun k => k.1 == false) := by
  unfold nRec
  induction w.recs with
  | nil => exact ⟨rfl, rfl⟩
  | cons r l ih =>
    cases r with
    | workOrder k m t tgt tag info =>
      by_cases h1 : k = 1
      · subst h1; simp [List.filter_cons, isSF, rkey, List.countP_cons, ih.1, ih.2]
      · by_cases h2 : k = 2
        · subst h2; simp [List.filter_cons, isSF, rkey, List.countP_cons, ih.1, ih.2]
        · simp [List.filter_cons, isSF, rkey, List.countP_cons, ih.1, ih.2, h1, h2]
    | _ => simpa [List.filter_cons, isSF, List.countP_cons] using ih

/-- **Number of `start_work` hook calls = number of START records; number of `end_work` hook calls
= number of FINISH records.** -/
theorem hook_counts {w0 w : World} (hi : Inv w0) (hh : HookLog w0) (hr : Reachable w0 w) :
    nHook true w = nRec 1 w ∧ nHook false w = nRec 2 w := by
  have h := hookLog_reachable hi hh hr
  unfold HookLog at h
  rw [nHook_eq, nHook_eq, (nRec_eq w).1, (nRec_eq w).2, h]
  exact ⟨rfl, rfl⟩

/-! ### the hypotheses are needed -/

def stepN : Nat → World → World
  | 0, w => w
  | k + 1, w => match w.step with
    | none => w
    | some (_, w') => stepN k w'

theorem reachable_stepN {w0 w : World} (hr : Reachable w0 w) (k : Nat) : Reachable w0 (stepN k w) := by
  induction k generalizing w with
  | zero => exact hr
  | succ k ih =>
    rw [stepN]
    split
    · exact hr
    · rename_i e w' hs; exact ih (hr.step hs)

/-- Operations issued from outside, then the beginning of a run of length 10. -/
def start (w : World) (ops : List Op) : World := ((w.applyOps ops).runBegin 10).1

/-- The active orders of maintainer 0 without a pending event. -/
def orphans (w : World) : List Nat :=
  ((w.maint 0).active.map (·.seq)).filter (fun s => !(skeys 0 w.env.events).contains s)

/-- Two plain targets; the start hook of target 0 is script 0, which pauses asset 3 — the
maintainer. -/
def exPause : World :=
  { maints := [{ m := {}, aid := 3 }]
    targets := [{ params := [(0, 2, 0, 0)], startScript := some 0 }, { params := [(0, 2, 0, 0)] }]
    scripts := [[.pause 3]] }

/-- **Scripts must not pause the asset id of a maintainer**: the START event of order 1 is paused
by the start hook of order 0 — the order is active, no event will ever start or finish it (the
world is fresh and violates the class only by that script). -/
theorem no_script_pause_needed :
    Fresh exPause ∧ ¬ S exPause ∧ S { exPause with scripts := [[]] } ∧
    orphans (stepN 1 (start exPause [.workOrder 0 0 0 0, .workOrder 0 1 0 0])) = [1] ∧
    (stepN 1 (start exPause [.workOrder 0 0 0 0, .workOrder 0 1 0 0])).env.paused.map ekey =
      [some (false, 0, 1)] ∧
    orphans (runLoop 50 (start exPause [.workOrder 0 0 0 0, .workOrder 0 1 0 0])) = [1] := by
  decide

/-- The maintainer carries the asset id of the machine that is target 0. -/
def exAid : World :=
  { devs := [{ kind := .processor, aid := 1 }]
    maints := [{ m := {}, aid := 1 }]
    targets := [{ dev := some 0, params := [(0, 2, 0, 0)] }, { params := [(0, 2, 0, 0)] }] }

/-- **The asset ids of the maintainers must differ from those of the devices**: shutting the
machine down for its maintenance pauses the maintainer's own events (here the START event of
order 1, which is resumed — late — when the machine is restored). -/
theorem distinct_aids_needed :
    Fresh exAid ∧ ¬ S exAid ∧ S { exAid with devs := [{ kind := .processor, aid := 2 }] } ∧
    orphans (stepN 1 (start exAid [.workOrder 0 0 0 0, .workOrder 0 1 0 0])) = [1] ∧
    (stepN 1 (start exAid [.workOrder 0 0 0 0, .workOrder 0 1 0 0])).env.paused.map ekey =
      [some (false, 0, 1)] := by
  decide

/-- The maintainer carries asset id 0, the id of the default device; target 0 refers to a device
that does not exist. -/
def exZero : World :=
  { maints := [{ m := {}, aid := 0 }]
    targets := [{ dev := some 7, params := [(0, 2, 0, 0)] }, { params := [(0, 2, 0, 0)] }] }

/-- **… nor be 0**: the hooks of a dangling target pause / resume asset 0. -/
theorem nonzero_aid_needed :
    Fresh exZero ∧ ¬ S exZero ∧
    S { exZero with maints := [{ m := {}, aid := 1 }] } ∧
    orphans (runLoop 50 (start exZero [.workOrder 0 0 0 0, .workOrder 0 1 0 0])) = [1] := by
  decide

/-- The same machine as in `exAid`, created by an operation: the constructor assigns it the asset
id `number of registered assets + 1 = 1`, the maintainer's. -/
def exCreate : World :=
  { maints := [{ m := {}, aid := 1 }]
    targets := [{ dev := some 0, params := [(0, 2, 0, 0)] }, { params := [(0, 2, 0, 0)] }] }

/-- **No `create`**: a created asset may get the asset id of a maintainer. -/
theorem no_create_needed :
    Fresh exCreate ∧ S exCreate ∧ opOK (aids exCreate) 1 (.create (.dev { kind := .processor })) = false ∧
    orphans (stepN 1 (start exCreate
      [.create (.dev { kind := .processor }), .workOrder 0 0 0 0, .workOrder 0 1 0 0])) = [1] := by
  decide

/-- A target that reports a negative duration. -/
def exDur : World :=
  { maints := [{ m := {}, aid := 1 }], targets := [{ params := [(0, -1, 0, 0)] }] }

/-- **Durations must not be negative**: the FINISH event would lie in the past — in Python
`schedule_event` raises inside the START action; in the model the error is recorded and the order
stays active without any event. -/
theorem nonneg_duration_needed :
    Fresh exDur ∧ ¬ S exDur ∧ S { exDur with targets := [{ params := [(0, 1, 0, 0)] }] } ∧
    (runLoop 50 (start exDur [.workOrder 0 0 0 0])).error = some "sched-past" ∧
    orphans (runLoop 50 (start exDur [.workOrder 0 0 0 0])) = [0] := by
  decide

/-- Capacity 1; target 0 reports the needed capacity −1, target 1 needs 2. -/
def exNeed : World :=
  { maints := [{ m := { cap := some 1 }, aid := 1 }]
    targets := [{ params := [(0, 1, -1, 0)] }, { params := [(0, 5, 2, 0)] }] }

/-- **Needed capacities must not be negative**: order 1 (needs 2) starts because order 0 "needs"
−1; when order 0 has finished the maintainer works on 2 with capacity 1. -/
theorem nonneg_capacity_needed :
    Fresh exNeed ∧ ¬ S exNeed ∧
    S { exNeed with targets := [{ params := [(0, 1, 0, 0)] }, { params := [(0, 5, 2, 0)] }] } ∧
    ((stepN 3 (start exNeed [.workOrder 0 0 0 0, .workOrder 0 1 0 0])).maint 0).util = 2 ∧
    ((stepN 3 (start exNeed [.workOrder 0 0 0 0, .workOrder 0 1 0 0])).maint 0).cap = some 1 ∧
    ((stepN 3 (start exNeed [.workOrder 0 0 0 0, .workOrder 0 1 0 0])).maint 0).active.map (·.needed)
      = [2] := by
  decide

/-- 257 maintainers. -/
def ex257 : World :=
  { maints := List.replicate 257 { m := {}, aid := 1 }, targets := [{ params := [(0, 1, 0, 0)] }] }

/-- **At most 256 maintainers** (an artefact of the model: the action code keeps the maintainer
index modulo 256): the START event of order 0 of maintainer 256 decodes as order 1 of maintainer
0. -/
theorem at_most_256_needed :
    Fresh ex257 ∧ ¬ S ex257 ∧ opOK (aids ex257) 257 (.workOrder 256 0 0 0) = true ∧
    Action.ofNat (Action.startWork 256 0).toNat = .startWork 0 1 ∧
    (runLoop 50 (start ex257 [.workOrder 256 0 0 0])).error = some "start-unknown-order" := by
  decide +kernel

/-- One maintainer. -/
def exOne : World :=
  { maints := [{ m := {}, aid := 1 }], targets := [{ params := [(0, 1, 0, 0)] }] }

/-- **Work orders only for existing maintainers**: in the model a request to a maintainer that
does not exist is not stored, but its START event is scheduled. -/
theorem existing_maintainer_needed :
    Fresh exOne ∧ S exOne ∧ opOK (aids exOne) 1 (.workOrder 5 0 0 0) = false ∧
    (runLoop 50 (start exOne [.workOrder 5 0 0 0])).error = some "start-unknown-order" := by
  decide

/-! ### non-vacuity -/

/-- A maintainer (capacity 2, asset id 3, starting value 100); a machine (device 0, asset id 1) is
target 0, targets 1 and 2 are plain `Maintainable`s.  Script 0 requests three orders and repeats
the second request; script 1 — the start hook of target 1 — requests a further order and changes
the duration of the order being started; script 2 — the end hook of target 2 — pauses an unrelated
asset. -/
def exW : World :=
  { devs := [{ kind := .processor, aid := 1, cycle := 2 }, { kind := .sink, aid := 2, up := [0] }]
    maints := [{ m := { cap := some 2, val := { init := 100, value := 100 } }, aid := 3 }]
    targets := [{ dev := some 0, params := [(0, 3, 1, 5)] },
                { params := [(0, 2, 1, 7), (1, 4, 2, 1)], startScript := some 1 },
                { params := [(0, 1, 2, 2)], endScript := some 2 }]
    scripts := [[.workOrder 0 0 0 10, .workOrder 0 1 0 11, .workOrder 0 2 0 12, .workOrder 0 1 0 13],
                [.workOrder 0 1 1 14, .setParams 1 0 9 1 7],
                [.pause 7]]
    assets := [.dev 0, .dev 1, .maint 0] }

/-- Script 0 is scheduled for time 1. -/
def exW1 : World := (exW.applyOp (.sched 1 50 0 8)).1

/-- `System.simulate(20)`: initialise, begin the run; `exR`: the completed run. -/
def ex2 : World := (exW1.simulateInit.runBegin 20).1
def exR : World := runLoop 100 ex2

-- the hypotheses are satisfiable: the world is of the class and fresh
example : S exW1 ∧ Fresh exW1 ∧ exW1.env.events.map (·.time) = [1] := by decide

theorem inv_exW1 : Inv exW1 := (inv_of_fresh (by decide) (by decide)).1
theorem hookLog_exW1 : HookLog exW1 := (inv_of_fresh (by decide) (by decide)).2

theorem reach_ex2 (k : Nat) : Reachable exW1 (stepN k ex2) :=
  reachable_stepN (.run 20 (.init .refl)) k

theorem reach_exR : Reachable exW1 exR := reachable_simulate 100 20 exW1

-- after the script (time 1): orders 0 and 1 are active (capacity 2 is used up), order 2 waits,
-- the duplicate request was refused; both START events are due now
example : ((stepN 1 ex2).maint 0).active.map (·.seq) = [0, 1] ∧
    ((stepN 1 ex2).maint 0).queue.map (·.seq) = [2] ∧ ((stepN 1 ex2).maint 0).util = 2 ∧
    (stepN 1 ex2).now = 1 ∧
    (stepN 1 ex2).env.events.map (fun e => (e.time, ekey e)) =
      [(1, some (false, 0, 0)), (1, some (false, 0, 1)), (20, none)] := by decide

-- theorems 1, 2, 5 instantiated there
example : C12.Inv ((stepN 1 ex2).maint 0) ∧ C12.CapOK ((stepN 1 ex2).maint 0) :=
  bookkeeping_reachable inv_exW1 (reach_ex2 1) 0
example : ∀ o ∈ ((stepN 1 ex2).maint 0).active, ∃ e ∈ (stepN 1 ex2).env.events,
    e.cancelled = false ∧ e.asset = 3 ∧ ekey e = some (false, 0, o.seq) ∧ e.time = 1 := by
  intro o ho
  obtain ⟨e, he, hc, ha, h | h, _⟩ := active_has_one_event inv_exW1 (reach_ex2 1) 0 o ho
  · exact ⟨e, he, hc, ha, h.1, h.2.1⟩
  · -- no FINISH event is pending in that state
    have hk : ∀ e ∈ (stepN 1 ex2).env.events, (ekey e).map (·.1) ≠ some true := by decide
    exact absurd (by rw [h.1]; rfl) (hk e he)
example : ∀ o ∈ ((stepN 1 ex2).maint 0).queue, ((stepN 1 ex2).maint 0).startable o = false :=
  nothing_startable_reachable inv_exW1 (reach_ex2 1) 0

theorem stepN_succ (k : Nat) (w : World) :
    stepN (k + 1) w = match (stepN k w).step with
      | none => stepN k w
      | some (_, w') => w' := by
  induction k generalizing w with
  | zero => rfl
  | succ k ih =>
    rw [stepN]
    cases hs : w.step with
    | none => simp [stepN, hs]
    | some q => obtain ⟨e, w'⟩ := q; simp only [stepN, hs]; exact ih w'

/-- The step taken in state `stepN k w`. -/
theorem step_of_stepN {k : Nat} {w : World} {x : Option (Bool × Nat × Nat)}
    (h : (stepN k w).step.map (fun q => ekey q.1) = some x) :
    ∃ e, (stepN k w).step = some (e, stepN (k + 1) w) ∧ ekey e = x := by
  rw [stepN_succ]
  cases hs : (stepN k w).step with
  | none => rw [hs] at h; cases h
  | some q =>
    obtain ⟨e, w'⟩ := q
    rw [hs] at h
    exact ⟨e, rfl, by simpa using h⟩

-- the next step executes the START event of order 0 (the machine; duration 3, cost 5):
-- `start_step` applies, and says what the state computed by `decide` shows
example : ∃ o, ((stepN 1 ex2).maint 0).findActive 0 = some o ∧
    (stepN 2 ex2).recs.filter isSF = (stepN 1 ex2).recs.filter isSF ++
      [.workOrder 1 0 (stepN 1 ex2).now o.target o.tag o.info] ∧
    (stepN 2 ex2).results.filter isHook = (stepN 1 ex2).results.filter isHook ++
      [.hook true o.target o.tag] ∧
    ∃ e' ∈ (stepN 2 ex2).env.events, ekey e' = some (true, 0, 0) ∧
      e'.time = (stepN 1 ex2).now + ((stepN 1 ex2).targetParams o.target o.tag).1 := by
  obtain ⟨e, hs, hk⟩ := step_of_stepN (k := 1) (w := ex2) (x := some (false, 0, 0)) (by decide)
  obtain ⟨o, h1, _, _, _, _, h2, h3, _, _, _, ⟨e', he', hk', ht', _⟩, _⟩ :=
    start_step (inv_reachable inv_exW1 (reach_ex2 1)) hs hk
  exact ⟨o, h1, h2, h3, e', he', hk', ht'⟩
example : (stepN 2 ex2).recs.filter isSF = [.workOrder 1 0 1 0 0 10] ∧
    (stepN 2 ex2).results.filter isHook = [.hook true 0 0] ∧
    ((stepN 2 ex2).dev 0).shutDown = true ∧ ((stepN 2 ex2).maint 0).val.value = 95 ∧
    (stepN 2 ex2).env.events.map (fun e => (e.time, e.prio, ekey e)) =
      [(1, pStartWork, some (false, 0, 1)), (4, pFinishWork, some (true, 0, 0)), (20, 4, none)] := by
  decide

-- order 1 (target 1, tag 0) is started at time 1 with the duration 2 reported then; its start hook
-- (script 1) requests another order for the same target and changes the duration to 9: the order
-- is nevertheless finished at exactly 1 + 2 = 3 — `exact_duration`
example : ((stepN 2 ex2).targetParams 1 0).1 = 2 ∧ ((stepN 3 ex2).targetParams 1 0).1 = 9 ∧
    Rec.workOrder 2 0 3 1 0 11 ∈ exR.recs := by decide
example : ∃ o, ((stepN 2 ex2).maint 0).findActive 1 = some o ∧
    Rec.workOrder 1 0 (stepN 2 ex2).now o.target o.tag o.info ∈ (runLoop 100 (stepN 3 ex2)).recs ∧
    ((o ∈ ((runLoop 100 (stepN 3 ex2)).maint 0).active ∧
        ∃ e2 ∈ (runLoop 100 (stepN 3 ex2)).env.events, ekey e2 = some (true, 0, 1) ∧
        e2.time = (stepN 2 ex2).now + ((stepN 2 ex2).targetParams o.target o.tag).1) ∨
      Rec.workOrder 2 0 ((stepN 2 ex2).now + ((stepN 2 ex2).targetParams o.target o.tag).1)
        o.target o.tag o.info ∈ (runLoop 100 (stepN 3 ex2)).recs) := by
  obtain ⟨e, hs, hk⟩ := step_of_stepN (k := 2) (w := ex2) (x := some (false, 0, 1)) (by decide)
  exact exact_duration (inv_reachable inv_exW1 (reach_ex2 2)) hs hk (.loop 100 .refl)
example : Rec.workOrder 2 0 3 1 0 11 ∈ (runLoop 100 (stepN 3 ex2)).recs ∧
    ((runLoop 100 (stepN 3 ex2)).maint 0).active = [] := by decide +kernel

-- time 3: order 1 has been finished; orders 2 and 3 wait (each needs 2, one unit is in use):
-- nothing is startable although the queue is not empty, and the clock is about to advance
example : (stepN 4 ex2).now = 3 ∧ ((stepN 4 ex2).maint 0).queue.map (·.seq) = [2, 3] ∧
    ((stepN 4 ex2).maint 0).util = 1 ∧
    (∀ e ∈ (stepN 4 ex2).env.events, e.live = true → (stepN 4 ex2).now < e.time) := by decide
example : ∀ o ∈ ((stepN 4 ex2).maint 0).queue,
    ((stepN 4 ex2).maint 0).fits o = false ∨ ((stepN 4 ex2).maint 0).targetFree o = false :=
  no_starvation_at_clock_advance inv_exW1 (reach_ex2 4) (by decide) 0

-- the completed run: four orders started and finished, in request order as capacity allowed;
-- hooks and records correspond one to one; the cost of each order was charged once
example : exR.recs.filter isSF =
    [.workOrder 1 0 1 0 0 10, .workOrder 1 0 1 1 0 11, .workOrder 2 0 3 1 0 11,
     .workOrder 2 0 4 0 0 10, .workOrder 1 0 4 2 0 12, .workOrder 2 0 5 2 0 12,
     .workOrder 1 0 5 1 1 14, .workOrder 2 0 9 1 1 14] ∧
    exR.results.filter isHook =
    [.hook true 0 0, .hook true 1 0, .hook false 1 0, .hook false 0 0, .hook true 2 0,
     .hook false 2 0, .hook true 1 1, .hook false 1 1] ∧
    (exR.maint 0).val.value = 100 - 5 - 7 - 2 - 1 ∧ exR.error = none ∧ exR.now = 20 := by
  decide +kernel
example : HookLog exR := hookLog_reachable inv_exW1 hookLog_exW1 reach_exR
example : nHook true exR = nRec 1 exR ∧ nHook false exR = nRec 2 exR ∧ nRec 1 exR = 4 :=
  ⟨(hook_counts inv_exW1 hookLog_exW1 reach_exR).1, (hook_counts inv_exW1 hookLog_exW1 reach_exR).2,
    by decide +kernel⟩
example : cntSF 1 0 (stepN 3 ex2).recs = 2 ∧ cntSF 2 0 (stepN 3 ex2).recs = 0 ∧
    (inProgress (stepN 3 ex2) 0).map (·.seq) = [0, 1] := by decide
example : cntSF 1 0 (stepN 3 ex2).recs = cntSF 2 0 (stepN 3 ex2).recs + (inProgress (stepN 3 ex2) 0).length :=
  in_progress_count inv_exW1 (reach_ex2 3) 0

end C12W
end SimProc
