/-
C18 — action schedules follow their timetable.

Theorems about `SimProc/Model/Scheduler.lean`: the sequence of transitions produced by
`Sched.update` (executed at start-up with `advance = false` and then by each transition event
with `advance = true`, the next event being scheduled `dur` after the current one).
-/
import SimProc.Model.Scheduler

namespace SimProc
namespace C18

/-- The timed run of a scheduler: `run n t s` performs up to `n` further transitions starting at
time `t` (the time of the next transition event) and returns the list of
`(time, state entered, objects acted on)`; it stops when `update` reports the end of a
non-cyclical schedule.  This is exactly what the event chain in the world does
(`World.schedUpdate` schedules the next `schedUpdate` event at `now + dur`). -/
def run : Nat → Int → Sched → List (Int × Int × List (Nat × Option Nat))
  | 0, _, _ => []
  | n + 1, t, s =>
    match s.update true with
    | (_, none) => []
    | (s', some (st, objs, dur)) => (t, st, objs) :: run n (t + dur) s'

/-- Start-up (`initialize`) at time `t0` followed by `n` transitions. -/
def start (n : Nat) (t0 : Int) (s : Sched) : List (Int × Int × List (Nat × Option Nat)) :=
  match s.update false with
  | (_, none) => []
  | (s', some (st, objs, dur)) => (t0, st, objs) :: run n (t0 + dur) s'

/-- Sum of the durations of the first `k` timetable entries, cyclically. -/
def T (tt : List (Int × Int)) : Nat → Int
  | 0 => 0
  | k + 1 => T tt k + (tt.getD (k % tt.length) (0, 0)).1

/-! ### helper lemmas -/

private theorem update_cyc_adv (s : Sched) (hc : s.cyc = true) (hne : s.tt ≠ []) :
    s.update true =
      ({ s with idx := (s.idx + 1) % s.tt.length,
                state := some (s.tt.getD ((s.idx + 1) % s.tt.length) (0, 0)).2 },
        some ((s.tt.getD ((s.idx + 1) % s.tt.length) (0, 0)).2, s.reg,
              (s.tt.getD ((s.idx + 1) % s.tt.length) (0, 0)).1)) := by
  have hpos : 0 < s.tt.length := List.length_pos_iff.mpr hne
  have hlt : (s.idx + 1) % s.tt.length < s.tt.length := Nat.mod_lt _ hpos
  simp [Sched.update, hc, List.getElem?_eq_getElem hlt, List.getD_eq_getElem?_getD]

private theorem update_acyc_adv_lt (s : Sched) (hc : s.cyc = false) (hlt : s.idx + 1 < s.tt.length) :
    s.update true =
      ({ s with idx := s.idx + 1, state := some (s.tt.getD (s.idx + 1) (0, 0)).2 },
        some ((s.tt.getD (s.idx + 1) (0, 0)).2, s.reg, (s.tt.getD (s.idx + 1) (0, 0)).1)) := by
  have hnot : ¬ (s.tt.length ≤ s.idx + 1) := by omega
  simp [Sched.update, hc, hnot, Nat.mod_eq_of_lt hlt, List.getElem?_eq_getElem hlt,
    List.getD_eq_getElem?_getD]

private theorem update_acyc_adv_ge (s : Sched) (hc : s.cyc = false) (hge : s.tt.length ≤ s.idx + 1) :
    (s.update true).2 = none := by
  simp [Sched.update, hc, hge]

private theorem update_noadv (s : Sched) (hlt : s.idx < s.tt.length) :
    s.update false =
      ({ s with state := some (s.tt.getD s.idx (0, 0)).2 },
        some ((s.tt.getD s.idx (0, 0)).2, s.reg, (s.tt.getD s.idx (0, 0)).1)) := by
  simp [Sched.update, List.getElem?_eq_getElem hlt, List.getD_eq_getElem?_getD]

private theorem run_cyc (tt : List (Int × Int)) (reg : List (Nat × Option Nat)) (t0 : Int)
    (hne : tt ≠ []) :
    ∀ (n : Nat) (t : Int) (s : Sched) (c k : Nat), s.tt = tt → s.cyc = true → s.reg = reg →
      s.idx = c % tt.length → t = t0 + T tt (c + 1) → k < n →
      (run n t s)[k]? =
        some (t0 + T tt (c + 1 + k), (tt.getD ((c + 1 + k) % tt.length) (0, 0)).2, reg) := by
  intro n
  induction n with
  | zero => intro t s c k _ _ _ _ _ hk; omega
  | succ n ih =>
    intro t s c k htt hc hreg hidx ht hk
    have hne' : s.tt ≠ [] := by rw [htt]; exact hne
    have hmod : (c % tt.length + 1) % tt.length = (c + 1) % tt.length := by
      rw [Nat.add_mod, Nat.mod_mod, ← Nat.add_mod]
    rw [run, update_cyc_adv s hc hne']
    simp only [htt, hidx, hmod, hreg]
    cases k with
    | zero => simp [ht]
    | succ k =>
      simp only [List.getElem?_cons_succ]
      have e : c + 1 + (k + 1) = c + 1 + 1 + k := by omega
      rw [e]
      exact ih _ _ (c + 1) k rfl hc rfl rfl (by simp only [T, ht]; omega) (by omega)

private theorem run_cyc_length (tt : List (Int × Int)) (hne : tt ≠ []) :
    ∀ (n : Nat) (t : Int) (s : Sched), s.tt = tt → s.cyc = true → (run n t s).length = n := by
  intro n
  induction n with
  | zero => intro t s _ _; simp [run]
  | succ n ih =>
    intro t s htt hc
    have hne' : s.tt ≠ [] := by rw [htt]; exact hne
    rw [run, update_cyc_adv s hc hne']
    simp only [List.length_cons]
    rw [ih _ _ (by exact htt) (by exact hc)]

private theorem T_lt (tt : List (Int × Int)) (k : Nat) (hk : k < tt.length) :
    T tt (k + 1) = T tt k + (tt.getD k (0, 0)).1 := by
  simp [T, Nat.mod_eq_of_lt hk]

private theorem run_acyc (tt : List (Int × Int)) (reg : List (Nat × Option Nat)) (t0 : Int) :
    ∀ (n : Nat) (t : Int) (s : Sched) (k : Nat), s.tt = tt → s.cyc = false → s.reg = reg →
      t = t0 + T tt (s.idx + 1) → k < n → s.idx + 1 + k < tt.length →
      (run n t s)[k]? =
        some (t0 + T tt (s.idx + 1 + k), (tt.getD (s.idx + 1 + k) (0, 0)).2, reg) := by
  intro n
  induction n with
  | zero => intro t s k _ _ _ _ hk; omega
  | succ n ih =>
    intro t s k htt hc hreg ht hk hlen
    have hlt : s.idx + 1 < s.tt.length := by rw [htt]; omega
    rw [run, update_acyc_adv_lt s hc hlt]
    simp only [htt, hreg]
    cases k with
    | zero => simp [ht]
    | succ k =>
      simp only [List.getElem?_cons_succ]
      have e : s.idx + 1 + (k + 1) = s.idx + 1 + 1 + k := by omega
      rw [e]
      exact ih _ _ k rfl hc rfl
        (by simp only [ht]; rw [T_lt tt (s.idx + 1) (by omega)]; omega) (by omega)
        (by simp only; omega)

private theorem run_acyc_length (tt : List (Int × Int)) :
    ∀ (n : Nat) (t : Int) (s : Sched), s.tt = tt → s.cyc = false →
      (run n t s).length = min n (tt.length - (s.idx + 1)) := by
  intro n
  induction n with
  | zero => intro t s _ _; simp [run]
  | succ n ih =>
    intro t s htt hc
    by_cases hlt : s.idx + 1 < s.tt.length
    · rw [run, update_acyc_adv_lt s hc hlt]
      simp only [List.length_cons]
      rw [ih _ _ (by exact htt) (by exact hc)]
      rw [htt] at hlt
      simp only
      omega
    · have hge : s.tt.length ≤ s.idx + 1 := by omega
      have h2 := update_acyc_adv_ge s hc hge
      rw [run]
      generalize s.update true = r at h2
      obtain ⟨s', o⟩ := r
      simp only at h2
      subst h2
      rw [htt] at hge
      simp only [List.length_nil]
      omega


/-- k-th entry of the run of a fresh cyclical scheduler: executes at `t0 + T k` and enters the
state of timetable entry `k mod n`. -/
theorem transition_times_cyclic (tt : List (Int × Int)) (reg : List (Nat × Option Nat)) (t0 : Int)
    (hne : tt ≠ []) (n k : Nat) (hk : k ≤ n) :
    (start n t0 { tt := tt, cyc := true, reg := reg })[k]? =
      some (t0 + T tt k, (tt.getD (k % tt.length) (0, 0)).2, reg) := by
  have hpos : 0 < tt.length := List.length_pos_iff.mpr hne
  rw [start, update_noadv _ (by simpa using hpos)]
  cases k with
  | zero => simp [T]
  | succ k =>
    simp only [List.getElem?_cons_succ]
    have := run_cyc tt reg t0 hne n (t0 + (tt.getD 0 (0, 0)).1)
      { tt := tt, cyc := true, reg := reg, state := some (tt.getD 0 (0, 0)).2 } 0 k rfl rfl rfl
      (by simp) (by simp [T, Nat.mod_eq_of_lt hpos]) (by omega)
    have e : k + 1 = 0 + 1 + k := by omega
    rw [e]
    exact this

theorem run_length_cyclic (tt : List (Int × Int)) (reg : List (Nat × Option Nat)) (t0 : Int)
    (hne : tt ≠ []) (n : Nat) :
    (start n t0 { tt := tt, cyc := true, reg := reg }).length = n + 1 := by
  have hpos : 0 < tt.length := List.length_pos_iff.mpr hne
  rw [start, update_noadv _ (by simpa using hpos)]
  simp only [List.length_cons]
  rw [run_cyc_length tt hne n _ _ rfl rfl]

/-- Non-cyclical: the entries are visited once, in order, at the same times; after the last one
there is no further transition (the scheduler stays in its last state forever). -/
theorem transition_times_acyclic (tt : List (Int × Int)) (reg : List (Nat × Option Nat)) (t0 : Int)
    (n k : Nat) (hk : k < tt.length) (hkn : k ≤ n) :
    (start n t0 { tt := tt, cyc := false, reg := reg })[k]? =
      some (t0 + T tt k, (tt.getD k (0, 0)).2, reg) := by
  have hpos : 0 < tt.length := by omega
  rw [start, update_noadv _ (by simpa using hpos)]
  cases k with
  | zero => simp [T]
  | succ k =>
    simp only [List.getElem?_cons_succ]
    have := run_acyc tt reg t0 n (t0 + (tt.getD 0 (0, 0)).1)
      { tt := tt, cyc := false, reg := reg, state := some (tt.getD 0 (0, 0)).2 } k rfl rfl rfl
      (by simp [T, Nat.mod_eq_of_lt hpos]) (by omega) (by simp only; omega)
    have e : k + 1 = 0 + 1 + k := by omega
    rw [e]
    exact this

theorem run_length_acyclic (tt : List (Int × Int)) (reg : List (Nat × Option Nat)) (t0 : Int) (n : Nat) :
    (start n t0 { tt := tt, cyc := false, reg := reg }).length = min (n + 1) tt.length := by
  cases tt with
  | nil => simp [start, Sched.update]
  | cons a tt =>
    rw [start, update_noadv _ (by simp)]
    simp only [List.length_cons]
    rw [run_acyc_length (a :: tt) n _ _ rfl rfl]
    simp only [List.length_cons]
    omega

/-- The period of a cyclical schedule is the total duration. -/
theorem period (tt : List (Int × Int)) (hne : tt ≠ []) (k : Nat) :
    T tt (k + tt.length) = T tt k + T tt tt.length := by
  have hpos : 0 < tt.length := List.length_pos_iff.mpr hne
  induction k with
  | zero => simp [T]
  | succ k ih =>
    have e : k + 1 + tt.length = (k + tt.length) + 1 := by omega
    rw [e, T, ih, T, Nat.add_mod_right]
    omega

/-- A state change acts on exactly the objects registered at that moment, in registration order,
each with its override (or the default action); the state entered is recorded in `state`. -/
theorem update_acts_on_registered (s : Sched) (adv : Bool) (s' : Sched) (st : Int)
    (objs : List (Nat × Option Nat)) (dur : Int) (h : s.update adv = (s', some (st, objs, dur))) :
    objs = s.reg ∧ s'.state = some st ∧ s'.reg = s.reg ∧ s'.tt = s.tt ∧ s'.cyc = s.cyc := by
  unfold Sched.update at h
  dsimp only at h
  repeat' split at h
  all_goals
    simp only [Prod.mk.injEq, Option.some.injEq, reduceCtorEq, and_false] at h
  all_goals
    obtain ⟨rfl, rfl, rfl, rfl⟩ := h
    simp

/-- A non-cyclical schedule past its end: nothing is acted on, the state and the registrations
are unchanged. -/
theorem update_past_end (s : Sched) (s' : Sched) (h : s.update true = (s', none)) :
    s'.state = s.state ∧ s'.reg = s.reg := by
  unfold Sched.update at h
  dsimp only at h
  repeat' split at h
  all_goals
    simp only [Prod.mk.injEq, reduceCtorEq, and_false, and_true] at h
  all_goals
    subst h
    simp

/-- Registration: `register` returns whether the object was new, appends it at the end
(registration order), and never touches the timetable position; re-registering is refused. -/
theorem register_spec (s : Sched) (obj : Nat) (ovr : Option Nat) :
    ((s.register obj ovr).2 = !(s.reg.any (fun p => p.1 == obj))) ∧
    ((s.register obj ovr).2 = true → (s.register obj ovr).1.reg = s.reg ++ [(obj, ovr)]) ∧
    ((s.register obj ovr).2 = false → (s.register obj ovr).1 = s) ∧
    (s.register obj ovr).1.idx = s.idx ∧ (s.register obj ovr).1.state = s.state := by
  unfold Sched.register
  by_cases hany : s.reg.any (fun p => p.1 == obj) = true
  · simp [hany]
  · simp [hany]

theorem unregister_spec (s : Sched) (obj : Nat) :
    ((s.unregister obj).2 = s.reg.any (fun p => p.1 == obj)) ∧
    (s.unregister obj).1.reg = s.reg.filter (fun p => !(p.1 == obj)) ∧
    (s.unregister obj).1.idx = s.idx ∧ (s.unregister obj).1.state = s.state := by
  unfold Sched.unregister
  by_cases hany : s.reg.any (fun p => p.1 == obj) = true
  · simp [hany]
  · simp only [hany]
    simp only [Bool.not_eq_true] at hany
    refine ⟨by simp, ?_, rfl, rfl⟩
    simp only [Bool.false_eq_true, if_false]
    symm
    rw [List.filter_eq_self]
    intro p hp
    rw [List.any_eq_false] at hany
    simpa using hany p hp

/-- Objects registered or unregistered between two changes are affected only from the next change
on: a (un)registration produces no action by itself (it returns no transition) — the next
`update` then acts on the new registration list. -/
theorem registration_takes_effect_next (s : Sched) (obj : Nat) (ovr : Option Nat) (s' : Sched)
    (st : Int) (objs : List (Nat × Option Nat)) (dur : Int)
    (h : (s.register obj ovr).1.update true = (s', some (st, objs, dur))) :
    objs = (s.register obj ovr).1.reg := by
  exact (update_acts_on_registered _ _ _ _ _ _ h).1

/-! ### non-vacuity -/

example :
    (start 5 0 { tt := [(8, 1), (0, 2), (3, 1)], cyc := true, reg := [(7, none)] }).map (fun e => (e.1, e.2.1)) =
      [(0, 1), (8, 2), (8, 1), (11, 1), (19, 2), (19, 1)] ∧
    (start 5 0 { tt := [(8, 1), (0, 2), (3, 1)], cyc := false, reg := [] }).map (fun e => (e.1, e.2.1)) =
      [(0, 1), (8, 2), (8, 1)] := by
  decide

end C18
end SimProc
