/-
C09 — resource pools: usage equals outstanding reservations; requests are atomic.

All theorems are about `SimProc/Model/Resource.lean` (the resource manager as repaired by the
`fix:` commits for F1, F2, F3, F9) and hold for EVERY sequence of operations, including
operations issued before the manager is initialised.
-/
import SimProc.Model.Resource
import SimProc.Proofs.ResourceLemmas

namespace SimProc
namespace C09

/-- Amount of resource `r` in a holding / request (0 if absent). -/
def amt (h : Req) (r : Nat) : Int := (RM.heldAmt h r).getD 0

/-- Sum over all outstanding reservations of what they hold of `r`. -/
def heldSum (rm : RM) (r : Nat) : Int := (rm.resv.map (fun p => amt p.2 r)).foldl (· + ·) 0

/-- A request dictionary: distinct keys (a Python `dict`). -/
def NodupKeys (q : Req) : Prop := (q.map (·.1)).Nodup

/-- Well-formed operations: requests are dictionaries (distinct keys).  `merge` needs no
hypothesis: merging a reservation into itself is a no-op (finding F11, repaired). -/
def WFOp : RMOp → Prop
  | .reserve req => NodupKeys req
  | .release _ (some rel) => NodupKeys rel
  | .register req _ => NodupKeys req
  | _ => True

/-- The invariant. -/
structure Inv (rm : RM) : Prop where
  poolKeys : (rm.pools.map (·.1)).Nodup
  resvIds : ∀ i (h : i < rm.resv.length), (rm.resv[i]).1 = i
  heldKeys : ∀ p ∈ rm.resv, NodupKeys p.2
  heldPos : ∀ p ∈ rm.resv, ∀ e ∈ p.2, 0 < e.2
  heldKnown : ∀ p ∈ rm.resv, ∀ e ∈ p.2, (rm.lookup e.1).isSome
  usageEq : ∀ r, rm.usage r = heldSum rm r
  capNonneg : ∀ p ∈ rm.pools, 0 ≤ p.2.2

/-! ### auxiliary facts (the general association-list lemmas are in
`SimProc/Proofs/ResourceLemmas.lean`) -/

theorem amt_eq (h : Req) (r : Nat) : amt h r = RM.amtOf h r := rfl

theorem heldSum_eq (rm : RM) (r : Nat) :
    heldSum rm r = isum (rm.resv.map (fun p => RM.amtOf p.2 r)) := rfl

/-- Pool part of the invariant. -/
structure PInv (rm : RM) : Prop where
  poolKeys : (rm.pools.map (·.1)).Nodup
  capNonneg : ∀ p ∈ rm.pools, 0 ≤ p.2.2

/-- Reservation part of the invariant. -/
structure RInv (rm : RM) : Prop where
  resvIds : ∀ i (h : i < rm.resv.length), (rm.resv[i]).1 = i
  heldKeys : ∀ p ∈ rm.resv, NodupKeys p.2
  heldPos : ∀ p ∈ rm.resv, ∀ e ∈ p.2, 0 < e.2
  heldKnown : ∀ p ∈ rm.resv, ∀ e ∈ p.2, (rm.lookup e.1).isSome

theorem Inv.pinv {rm : RM} (h : Inv rm) : PInv rm := ⟨h.poolKeys, h.capNonneg⟩
theorem Inv.rinv {rm : RM} (h : Inv rm) : RInv rm := ⟨h.resvIds, h.heldKeys, h.heldPos, h.heldKnown⟩
theorem Inv.mk' {rm : RM} (hp : PInv rm) (hr : RInv rm) (hu : ∀ r, rm.usage r = heldSum rm r) :
    Inv rm :=
  ⟨hp.poolKeys, hr.resvIds, hr.heldKeys, hr.heldPos, hr.heldKnown, hu, hp.capNonneg⟩

theorem PInv.cap_of_lookup {rm : RM} (h : PInv rm) {r : Nat} {u c : Int}
    (hl : rm.lookup r = some (u, c)) : 0 ≤ c :=
  h.capNonneg (r, (u, c)) (mem_of_alookup _ _ _ hl)

theorem PInv.of_lookup {rm : RM} (hn : (rm.pools.map (·.1)).Nodup)
    (hc : ∀ r u c, rm.lookup r = some (u, c) → 0 ≤ c) : PInv rm := by
  refine ⟨hn, ?_⟩
  intro p hp
  obtain ⟨r, u, c⟩ := p
  exact hc r u c (alookup_of_mem _ hn _ _ hp)

theorem PInv.cap_nonneg {rm : RM} (h : PInv rm) (r : Nat) : 0 ≤ rm.capacity r := by
  unfold RM.capacity
  cases hl : rm.lookup r with
  | none => simp
  | some v => obtain ⟨u, c⟩ := v; simpa using h.cap_of_lookup hl

theorem PInv.setPool {rm : RM} (h : PInv rm) (r : Nat) (v : Int × Int) (hv : 0 ≤ v.2) :
    PInv (rm.setPool r v) := by
  apply PInv.of_lookup (RM.setPool_keys_nodup _ _ _ h.poolKeys)
  intro r' u c hl
  rw [RM.lookup_setPool] at hl
  split at hl
  · cases hl; exact hv
  · exact h.cap_of_lookup hl

theorem PInv.take {rm : RM} (h : PInv rm) (req : Req) (hk : NodupKeys req) : PInv (rm.take req).1 := by
  apply PInv.of_lookup (RM.take_keys_nodup _ _ h.poolKeys)
  intro r u c hl
  rw [RM.lookup_take _ _ hk] at hl
  split at hl
  · exact h.cap_of_lookup hl
  · cases hl; exact h.cap_nonneg r

theorem PInv.credit {rm : RM} (h : PInv rm) (req : Req) (hk : NodupKeys req) :
    PInv (rm.credit req).1 := by
  rw [RM.credit_eq_take]
  exact h.take _ (by unfold NodupKeys; rw [RM.keys_neg]; exact hk)

/-- The reservation part only depends on `resv` and on which resources are known. -/
theorem RInv.pools {rm rm' : RM} (h : RInv rm) (hres : rm'.resv = rm.resv)
    (hmono : ∀ r, (rm.lookup r).isSome → (rm'.lookup r).isSome) : RInv rm' := by
  refine ⟨?_, ?_, ?_, ?_⟩
  · rw [hres]; exact h.resvIds
  · rw [hres]; exact h.heldKeys
  · rw [hres]; exact h.heldPos
  · rw [hres]; intro p hp e he; exact hmono _ (h.heldKnown p hp e he)

theorem RInv.resvNodup {rm : RM} (h : RInv rm) : (rm.resv.map (·.1)).Nodup :=
  RM.nodup_of_ids _ h.resvIds

theorem RInv.of_held {rm : RM} (h : RInv rm) {id : Nat} {hd : Req} (hh : rm.held id = some hd) :
    NodupKeys hd ∧ (∀ e ∈ hd, 0 < e.2) ∧ (∀ e ∈ hd, (rm.lookup e.1).isSome) := by
  have hm : (id, hd) ∈ rm.resv := mem_of_alookup _ _ _ hh
  exact ⟨h.heldKeys _ hm, h.heldPos _ hm, h.heldKnown _ hm⟩

theorem RInv.setHeld {rm : RM} (h : RInv rm) (id : Nat) (new : Req) (hk : NodupKeys new)
    (hp : ∀ e ∈ new, 0 < e.2) (hkn : ∀ e ∈ new, (rm.lookup e.1).isSome) :
    RInv (rm.setHeld id new) := by
  refine ⟨?_, ?_, ?_, ?_⟩
  · intro i hi
    simp only [RM.setHeld_resv] at hi ⊢
    rw [getElem_fst_aupd]
    exact h.resvIds i (by simpa [length_aupd] using hi)
  · intro p hp'
    rw [RM.setHeld_resv] at hp'
    rcases mem_aupd _ _ _ _ hp' with rfl | ⟨hm, _⟩
    · exact hk
    · exact h.heldKeys p hm
  · intro p hp'
    rw [RM.setHeld_resv] at hp'
    rcases mem_aupd _ _ _ _ hp' with rfl | ⟨hm, _⟩
    · exact hp
    · exact h.heldPos p hm
  · intro p hp'
    rw [RM.setHeld_resv] at hp'
    rcases mem_aupd _ _ _ _ hp' with rfl | ⟨hm, _⟩
    · exact hkn
    · exact h.heldKnown p hm

theorem heldSum_setHeld {rm : RM} (h : RInv rm) {id : Nat} {old : Req} (hh : rm.held id = some old)
    (new : Req) (r : Nat) :
    heldSum (rm.setHeld id new) r = heldSum rm r - amt old r + amt new r := by
  rw [heldSum_eq, heldSum_eq, RM.setHeld_resv]
  exact isum_map_aupd rm.resv h.resvNodup id new old (fun q => RM.amtOf q r) hh

theorem heldSum_congr {rm rm' : RM} (hres : rm'.resv = rm.resv) (r : Nat) :
    heldSum rm' r = heldSum rm r := by
  unfold heldSum; rw [hres]

theorem inv_setPool {rm : RM} (hi : Inv rm) (r : Nat) (v : Int × Int) (hu : v.1 = rm.usage r)
    (hc : 0 ≤ v.2) : Inv (rm.setPool r v) := by
  refine Inv.mk' (hi.pinv.setPool r v hc) (hi.rinv.pools (RM.setPool_resv _ _ _) ?_) ?_
  · intro r' hs; rw [RM.lookup_setPool]; split
    · rfl
    · exact hs
  · intro r'
    rw [heldSum_congr (RM.setPool_resv _ _ _), ← hi.usageEq, RM.usage_setPool]
    split
    · next h => rw [h, hu]
    · rfl

theorem inv_init : Inv {} := by
  refine ⟨by simp, ?_, ?_, ?_, ?_, ?_, ?_⟩ <;> simp [heldSum, RM.usage, RM.lookup]

/-- What a successful reservation amounts to (used for the invariant and for
`reserve_takes_exactly`). -/
theorem reserve_success {rm : RM} {req : Req} {id : Nat} (hs : (rm.reserve req).2.2.1 = some id) :
    (∀ e ∈ req, 0 ≤ e.2) ∧
    (∀ e ∈ req, 0 < e.2 → ∃ u c, rm.lookup e.1 = some (u, c) ∧ e.2 ≤ c - u) ∧
    id = rm.resv.length ∧
    (rm.reserve req).1 =
      { (rm.take req).1 with resv := rm.resv ++ [(rm.resv.length, req.filter (fun p => p.2 > 0))] } := by
  obtain ⟨hneg, hcf, hid, heq⟩ := RM.reserve_some rm req id hs
  refine ⟨?_, ?_, hid, heq⟩
  · intro e he
    rw [List.any_eq_false] at hneg
    have := hneg e he; simp at this; exact this
  · intro e he hpos
    rcases (RM.canFulfill_iff _ _).1 hcf e (by simp [he, hpos]) with h0 | h1
    · omega
    · exact h1

theorem inv_reserve {rm : RM} (hi : Inv rm) (req : Req) (hk : NodupKeys req) :
    Inv (rm.reserve req).1 := by
  cases hs : (rm.reserve req).2.2.1 with
  | none => rw [RM.reserve_none_eq rm req hs]; exact hi
  | some id =>
    obtain ⟨hnn, hfit, _, heq⟩ := reserve_success hs
    rw [heq]
    have hP := hi.pinv.take req hk
    refine Inv.mk' ⟨hP.poolKeys, hP.capNonneg⟩ ⟨?_, ?_, ?_, ?_⟩ ?_
    · intro i hlt
      simp only [List.length_append, List.length_singleton] at hlt
      by_cases hi' : i < rm.resv.length
      · simp only [List.getElem_append_left hi']; exact hi.resvIds i hi'
      · have : i = rm.resv.length := by omega
        subst this; simp
    · intro p hp
      simp only [List.mem_append, List.mem_singleton] at hp
      rcases hp with hp | rfl
      · exact hi.heldKeys p hp
      · exact RM.nodup_keys_filter req _ hk
    · intro p hp
      simp only [List.mem_append, List.mem_singleton] at hp
      rcases hp with hp | rfl
      · exact hi.heldPos p hp
      · intro e he; simpa using (List.mem_filter.1 he).2
    · intro p hp e he
      simp only [List.mem_append, List.mem_singleton] at hp
      rw [RM.lookup_withResv]
      apply RM.lookup_take_isSome _ _ hk
      rcases hp with hp | rfl
      · exact hi.heldKnown p hp e he
      · have hm := List.mem_filter.1 he
        obtain ⟨u, c, hl, _⟩ := hfit e hm.1 (by simpa using hm.2)
        rw [hl]; rfl
    · intro r
      rw [RM.usage_withResv, RM.usage_take _ _ hk, heldSum_eq]
      simp only [List.map_append, isum_append, List.map_cons, List.map_nil, isum_cons, isum_nil]
      rw [← heldSum_eq, ← hi.usageEq, RM.amtOf_filter_pos _ hk]
      have := RM.amtOf_nonneg req hnn r
      split <;> omega

theorem inv_add {rm : RM} (hi : Inv rm) (r : Nat) (a : Int) : Inv (rm.add r a).1 := by
  unfold RM.add
  split
  · exact hi
  · split
    · next u c hl =>
      split
      · exact hi
      · next hcond =>
        have hc := hi.pinv.cap_of_lookup hl
        exact inv_setPool hi r (u, c + a) (by simp [RM.usage, hl]) (by simp only; omega)
    · next hl =>
      split
      · exact hi
      · next hcond =>
        exact inv_setPool hi r (0, a) (by simp [RM.usage, hl]) (by simp only; omega)

theorem inv_release_core {rm : RM} (hi : Inv rm) {id : Nat} {h : Req} (hh : rm.held id = some h)
    (q new : Req) (hq : NodupKeys q) (hnk : NodupKeys new) (hpos : ∀ e ∈ new, 0 < e.2)
    (hkn : ∀ e ∈ new, (rm.lookup e.1).isSome) (hamt : ∀ r, amt new r = amt h r - amt q r) :
    Inv ((rm.credit q).1.setHeld id new) := by
  have hR : RInv (rm.credit q).1 :=
    hi.rinv.pools (RM.credit_resv _ _) (fun r hs => RM.lookup_credit_isSome _ _ hq _ hs)
  have hh' : (rm.credit q).1.held id = some h := by
    rw [RM.held_eq, RM.credit_resv, ← RM.held_eq]; exact hh
  refine Inv.mk' ?_ (hR.setHeld id new hnk hpos ?_) ?_
  · have := hi.pinv.credit q hq; exact ⟨this.poolKeys, this.capNonneg⟩
  · intro e he; exact RM.lookup_credit_isSome _ _ hq _ (hkn e he)
  · intro r
    rw [RM.setHeld_usage, RM.usage_credit _ _ hq, heldSum_setHeld hR hh',
      heldSum_congr (RM.credit_resv _ _), ← hi.usageEq, hamt]
    simp only [amt_eq]; omega

/-- Facts about the holdings left after a valid partial release. -/
theorem reduceHeld_props (h rel : Req) (hn : NodupKeys h) (hp : ∀ e ∈ h, 0 < e.2)
    (hv : RM.validateRelease h rel = .ok) :
    NodupKeys (RM.reduceHeld h rel) ∧
    (∀ e ∈ RM.reduceHeld h rel, 0 < e.2 ∧ e.1 ∈ h.map (·.1)) ∧
    ∀ r, amt (RM.reduceHeld h rel) r = amt h r - amt rel r := by
  rw [RM.validateRelease_ok_iff] at hv
  have hle : ∀ k x, (k, x) ∈ h → RM.amtOf rel k ≤ x := by
    intro k x hm
    rcases RM.amtOf_zero_or_mem rel k with h0 | hm'
    · have := hp _ hm; simp only at this; omega
    · obtain ⟨_, x', hx', hle⟩ := hv _ hm'
      rw [RM.heldAmt_eq, alookup_of_mem h hn k x hm] at hx'
      cases hx'; exact hle
  refine ⟨List.Nodup.sublist (RM.reduceHeld_keys_sublist h rel) hn, ?_, ?_⟩
  · intro e he
    obtain ⟨x, hm, h2, h3⟩ := RM.mem_reduceHeld h rel e he
    have := hle _ _ hm
    exact ⟨by omega, List.mem_map.2 ⟨(e.1, x), hm, rfl⟩⟩
  · intro r
    simp only [amt_eq]
    rw [RM.amtOf_reduceHeld h rel hn]
    split
    · rfl
    · next hnm =>
      rw [RM.amtOf_of_not_mem h r hnm]
      rcases RM.amtOf_zero_or_mem rel r with h0 | hm'
      · omega
      · obtain ⟨_, x', hx', _⟩ := hv _ hm'
        exfalso; apply hnm
        rw [← alookup_isSome_iff, ← RM.heldAmt_eq, hx']; rfl

theorem inv_release {rm : RM} (hi : Inv rm) (id : Nat) (part : Option Req)
    (hw : ∀ rel, part = some rel → NodupKeys rel) : Inv (rm.release id part).1 := by
  cases hh : rm.held id with
  | none => unfold RM.release; simp only [hh]; exact hi
  | some h =>
    obtain ⟨hhk, hhp, hhkn⟩ := hi.rinv.of_held hh
    cases part with
    | none =>
      rw [RM.release_all_eq rm id h hh]
      exact inv_release_core hi hh h [] hhk (by simp [NodupKeys]) (by simp) (by simp)
        (by intro r; simp [amt_eq])
    | some rel =>
      by_cases hv : RM.validateRelease h rel = .ok
      · rw [RM.release_part_eq rm id h rel hh hv]
        obtain ⟨h1, h2, h3⟩ := reduceHeld_props h rel hhk hhp hv
        refine inv_release_core hi hh rel _ (hw rel rfl) h1 (fun e he => (h2 e he).1) ?_ h3
        intro e he
        obtain ⟨q, hq, hq1⟩ := List.mem_map.1 (h2 e he).2
        rw [← hq1]; exact hhkn q hq
      · rw [RM.release_part_err rm id h rel hh hv]; exact hi

theorem inv_merge {rm : RM} (hi : Inv rm) (a b : Nat) : Inv (rm.merge a b).1 := by
  by_cases hne : a = b
  · subst hne; unfold RM.merge; cases rm.held a <;> simp [hi]
  unfold RM.merge
  cases ha : rm.held a with
  | none => exact hi
  | some hda =>
    cases hb : rm.held b with
    | none => exact hi
    | some hdb =>
      have hab : (a == b) = false := by simpa using hne
      simp only [hab, Bool.false_eq_true, if_false]
      have hne : a ≠ b := hne
      obtain ⟨hak, hap, hakn⟩ := hi.rinv.of_held ha
      obtain ⟨hbk, hbp, hbkn⟩ := hi.rinv.of_held hb
      have hR1 : RInv (rm.setHeld a (RM.mergeHeld hda hdb)) := by
        refine hi.rinv.setHeld a _ (RM.mergeHeld_nodup _ _ hak) (RM.mergeHeld_pos _ _ hap hbp) ?_
        intro e he
        rcases RM.mergeHeld_keys hda hdb e.1 (List.mem_map.2 ⟨e, he, rfl⟩) with hk | hk
        · obtain ⟨q, hq, hq1⟩ := List.mem_map.1 hk
          rw [← hq1]; exact hakn q hq
        · obtain ⟨q, hq, hq1⟩ := List.mem_map.1 hk
          rw [← hq1]; exact hbkn q hq
      have hb1 : (rm.setHeld a (RM.mergeHeld hda hdb)).held b = some hdb := by
        rw [RM.held_setHeld_ne _ _ _ _ hne.symm]; exact hb
      refine Inv.mk' ⟨hi.poolKeys, hi.capNonneg⟩
        (hR1.setHeld b [] (by simp [NodupKeys]) (by simp) (by simp)) ?_
      intro r
      rw [RM.setHeld_usage, RM.setHeld_usage, heldSum_setHeld hR1 hb1, heldSum_setHeld hi.rinv ha,
        ← hi.usageEq]
      simp only [amt_eq]
      rw [RM.amtOf_mergeHeld _ _ hbk]; simp; omega

/-- One-step preservation, for every well-formed operation. -/
theorem inv_apply (rm : RM) (op : RMOp) (h : Inv rm) (hw : WFOp op) : Inv (rm.apply op).1 := by
  cases op with
  | init => exact ⟨h.poolKeys, h.resvIds, h.heldKeys, h.heldPos, h.heldKnown, h.usageEq, h.capNonneg⟩
  | add r a => exact inv_add h r a
  | reserve req => exact inv_reserve h req hw
  | release id part =>
    refine inv_release h id part ?_
    intro rel hp; subst hp; exact hw
  | merge a b => exact inv_merge h a b
  | register req cb =>
    exact ⟨h.poolKeys, h.resvIds, h.heldKeys, h.heldPos, h.heldKnown, h.usageEq, h.capNonneg⟩

/-- Every reachable state satisfies the invariant. -/
theorem inv_reachable (ops : List RMOp) (hw : ∀ op ∈ ops, WFOp op) : Inv (({} : RM).applyAll ops) := by
  suffices H : ∀ (rm : RM), Inv rm → Inv (rm.applyAll ops) from H _ inv_init
  induction ops with
  | nil => intro rm h; exact h
  | cons op ops ih =>
    intro rm h
    rw [RM.applyAll]
    exact ih (fun o ho => hw o (List.mem_cons_of_mem _ ho)) _
      (inv_apply rm op h (hw op List.mem_cons_self))

/-- Usage of each resource equals the sum of the amounts held by outstanding reservations … -/
theorem usage_eq_sum (ops : List RMOp) (hw : ∀ op ∈ ops, WFOp op) (r : Nat) :
    (({} : RM).applyAll ops).usage r = heldSum (({} : RM).applyAll ops) r :=
  (inv_reachable ops hw).usageEq r

/-- … and is never negative. -/
theorem usage_nonneg (rm : RM) (h : Inv rm) (r : Nat) : 0 ≤ rm.usage r := by
  rw [h.usageEq, heldSum_eq]
  apply RM.isum_nonneg
  intro x hx
  obtain ⟨p, hp, rfl⟩ := List.mem_map.1 hx
  exact RM.amtOf_nonneg _ (fun e he => Int.le_of_lt (h.heldPos p hp e he)) r

/-- Capacity never becomes negative. -/
theorem cap_nonneg (rm : RM) (h : Inv rm) (r : Nat) : 0 ≤ rm.capacity r := by
  exact h.pinv.cap_nonneg r

/-- An operation that raises an error changes nothing. -/
theorem error_changes_nothing (rm : RM) (op : RMOp) (e : Err) (h : (rm.apply op).2.1 = .err e) :
    (rm.apply op).1 = rm := by
  exact RM.apply_err_eq rm op e h

/-- `fits rm req`: every positive requested amount is of a known resource and fits into capacity
minus usage. -/
def fits (rm : RM) (req : Req) : Prop :=
  ∀ e ∈ req, 0 < e.2 → ∃ u c, rm.lookup e.1 = some (u, c) ∧ e.2 ≤ c - u

theorem canFulfill_filter_iff (rm : RM) (req : Req) :
    rm.canFulfill (req.filter (fun p => p.2 > 0)) = true ↔ fits rm req := by
  rw [RM.canFulfill_iff]; unfold fits
  constructor
  · intro h e he hpos
    rcases h e (by simp [he, hpos]) with h0 | h1
    · omega
    · exact h1
  · intro h e he
    simp at he
    exact Or.inr (h e he.1 he.2)

/-- A reservation without negative amounts succeeds exactly when everything requested fits … -/
theorem reserve_iff_fits (rm : RM) (req : Req) (hn : ∀ e ∈ req, 0 ≤ e.2) :
    (rm.reserve req).2.2.1.isSome ↔ fits rm req := by
  have hany : req.any (fun p => p.2 < 0) = false := by
    rw [List.any_eq_false]; intro e he; have := hn e he; simp; omega
  unfold RM.reserve
  simp only [hany]
  by_cases hc : rm.canFulfill (req.filter (fun p => p.2 > 0)) = true
  · simp [hc, (canFulfill_filter_iff rm req).1 hc]
  · have : ¬ fits rm req := fun hf => hc ((canFulfill_filter_iff rm req).2 hf)
    simp [hc, this]

/-- … a negative amount is an error (and by `error_changes_nothing` takes nothing) … -/
theorem reserve_negative (rm : RM) (req : Req) (hn : ∃ e ∈ req, e.2 < 0) :
    (rm.reserve req).2.1 = .err .value ∧ (rm.reserve req).1 = rm := by
  have hany : req.any (fun p => p.2 < 0) = true := by
    rw [List.any_eq_true]; obtain ⟨e, he, hlt⟩ := hn; exact ⟨e, he, by simpa using hlt⟩
  unfold RM.reserve; simp [hany]

/-- … a successful reservation takes exactly the requested amounts: usage of every resource grows
by the (positive) amount requested for it, capacities are unchanged, and the new reservation
holds exactly the positive entries … -/
theorem reserve_takes_exactly (rm : RM) (req : Req) (id : Nat) (hi : Inv rm) (hk : NodupKeys req)
    (hs : (rm.reserve req).2.2.1 = some id) :
    (∀ r, (rm.reserve req).1.usage r = rm.usage r + (if 0 < amt req r then amt req r else 0)) ∧
    (∀ r, (rm.reserve req).1.capacity r = rm.capacity r) ∧
    (rm.reserve req).1.held id = some (req.filter (fun p => p.2 > 0)) ∧
    id = rm.resv.length := by
  obtain ⟨hnn, hfit, hid, heq⟩ := reserve_success hs
  rw [heq]
  refine ⟨?_, ?_, ?_, hid⟩
  · intro r
    rw [RM.usage_withResv, RM.usage_take _ _ hk, amt_eq]
    have := RM.amtOf_nonneg req hnn r
    split <;> omega
  · intro r; rw [RM.capacity_withResv, RM.capacity_take _ _ hk]
  · rw [hid, RM.held_eq]
    simp only
    rw [alookup_append, RM.alookup_length_of_ids _ hi.resvIds]
    simp [alookup_cons]

/-- … and a reservation that does not succeed takes nothing. -/
theorem reserve_fail_nothing (rm : RM) (req : Req) (hs : (rm.reserve req).2.2.1 = none) :
    (rm.reserve req).1 = rm := by
  exact RM.reserve_none_eq rm req hs

/-- Usage exceeds capacity only after capacity was explicitly reduced: every operation other than
a negative `add` on `r` preserves `usage r ≤ capacity r`. -/
theorem usage_le_cap_unless_reduced (rm : RM) (op : RMOp) (r : Nat) (hi : Inv rm) (hw : WFOp op)
    (hle : rm.usage r ≤ rm.capacity r) (hop : ∀ a, op = .add r a → 0 ≤ a) :
    (rm.apply op).1.usage r ≤ (rm.apply op).1.capacity r := by
  cases op with
  | init => exact hle
  | register req cb => exact hle
  | merge a b =>
    show (rm.merge a b).1.usage r ≤ (rm.merge a b).1.capacity r
    unfold RM.merge; split <;> try split
    all_goals exact hle
  | add r' a =>
    show (rm.add r' a).1.usage r ≤ (rm.add r' a).1.capacity r
    unfold RM.add
    split
    · exact hle
    · split
      · next u c hl =>
        split
        · exact hle
        · simp only [RM.usage_setPool, RM.capacity_setPool]
          split
          · next hr =>
            subst hr
            have := hop a rfl
            simp only [RM.usage, RM.capacity, hl] at hle
            simp at hle; omega
          · exact hle
      · next hl =>
        split
        · exact hle
        · simp only [RM.usage_setPool, RM.capacity_setPool]
          split
          · next hr => subst hr; exact hop a rfl
          · exact hle
  | reserve req =>
    show (rm.reserve req).1.usage r ≤ (rm.reserve req).1.capacity r
    cases hs : (rm.reserve req).2.2.1 with
    | none => rw [RM.reserve_none_eq rm req hs]; exact hle
    | some id =>
      obtain ⟨hu, hc, _, _⟩ := reserve_takes_exactly rm req id hi hw hs
      obtain ⟨_, hfit, _, _⟩ := reserve_success hs
      rw [hu, hc]
      split
      · next hpos =>
        rw [amt_eq] at hpos ⊢
        rcases RM.amtOf_zero_or_mem req r with h0 | hm
        · omega
        · obtain ⟨u, c, hl, hle'⟩ := hfit _ hm hpos
          simp only at hl hle'
          simp only [RM.usage, RM.capacity, hl]; simp; omega
      · omega
  | release id part =>
    show (rm.release id part).1.usage r ≤ (rm.release id part).1.capacity r
    cases hh : rm.held id with
    | none => unfold RM.release; simp only [hh]; exact hle
    | some h =>
      obtain ⟨hhk, hhp, _⟩ := hi.rinv.of_held hh
      cases part with
      | none =>
        rw [RM.release_all_eq rm id h hh]
        simp only [RM.setHeld_usage, RM.setHeld_capacity]
        rw [RM.usage_credit _ _ hhk, RM.capacity_credit _ _ hhk]
        have := RM.amtOf_nonneg h (fun e he => Int.le_of_lt (hhp e he)) r
        omega
      | some rel =>
        by_cases hv : RM.validateRelease h rel = .ok
        · rw [RM.release_part_eq rm id h rel hh hv]
          simp only [RM.setHeld_usage, RM.setHeld_capacity]
          rw [RM.usage_credit _ _ hw, RM.capacity_credit _ _ hw]
          have := RM.amtOf_nonneg rel
            (fun e he => ((RM.validateRelease_ok_iff h rel).1 hv e he).1) r
          omega
        · rw [RM.release_part_err rm id h rel hh hv]; exact hle

/-- Releasing everything gives back exactly what the reservation held … -/
theorem release_all_exact (rm : RM) (id : Nat) (h : Req) (hi : Inv rm) (hh : rm.held id = some h) :
    (∀ r, (rm.release id none).1.usage r = rm.usage r - amt h r) ∧
    (∀ r, (rm.release id none).1.capacity r = rm.capacity r) ∧
    (rm.release id none).1.held id = some [] := by
  obtain ⟨hhk, _, _⟩ := hi.rinv.of_held hh
  rw [RM.release_all_eq rm id h hh]
  refine ⟨?_, ?_, ?_⟩
  · intro r; rw [RM.setHeld_usage, RM.usage_credit _ _ hhk]; rfl
  · intro r; rw [RM.setHeld_capacity, RM.capacity_credit _ _ hhk]
  · apply RM.held_setHeld_self
    rw [RM.held_eq, RM.credit_resv, ← RM.held_eq, hh]; rfl

/-- … a valid partial release gives back exactly the named amounts and reduces the holdings by
them … -/
theorem release_part_exact (rm : RM) (id : Nat) (h rel : Req) (hi : Inv rm) (hk : NodupKeys rel)
    (hh : rm.held id = some h) (hok : (rm.release id (some rel)).2.1 = .ok) :
    (∀ r, (rm.release id (some rel)).1.usage r = rm.usage r - amt rel r) ∧
    (∀ r, (rm.release id (some rel)).1.capacity r = rm.capacity r) ∧
    (∀ r, ∃ h', (rm.release id (some rel)).1.held id = some h' ∧ amt h' r = amt h r - amt rel r) := by
  have hv : RM.validateRelease h rel = .ok := by
    rcases RM.validateRelease_ok_or_err h rel with hv | ⟨e, hv⟩
    · exact hv
    · unfold RM.release at hok; simp [hh, hv] at hok
  obtain ⟨hhk, hhp, _⟩ := hi.rinv.of_held hh
  rw [RM.release_part_eq rm id h rel hh hv]
  refine ⟨?_, ?_, ?_⟩
  · intro r; rw [RM.setHeld_usage, RM.usage_credit _ _ hk]; rfl
  · intro r; rw [RM.setHeld_capacity, RM.capacity_credit _ _ hk]
  · intro r
    refine ⟨RM.reduceHeld h rel, ?_, (reduceHeld_props h rel hhk hhp hv).2.2 r⟩
    apply RM.held_setHeld_self
    rw [RM.held_eq, RM.credit_resv, ← RM.held_eq, hh]; rfl

/-- … a partial release is accepted exactly when it names only held resources with amounts
between 0 and what is held … -/
theorem release_part_ok_iff (rm : RM) (id : Nat) (h rel : Req) (hh : rm.held id = some h) :
    (rm.release id (some rel)).2.1 = .ok ↔
      ∀ e ∈ rel, 0 ≤ e.2 ∧ ∃ x, RM.heldAmt h e.1 = some x ∧ e.2 ≤ x := by
  rw [← RM.validateRelease_ok_iff]
  unfold RM.release
  simp only [hh]
  rcases RM.validateRelease_ok_or_err h rel with hv | ⟨e, hv⟩
  · simp [hv]
  · simp [hv]

/-- … and releasing a second time changes no pool. -/
theorem release_twice_noop (rm : RM) (id : Nat) (hi : Inv rm) (hh : (rm.held id).isSome) :
    ((rm.release id none).1.release id none).1.pools = (rm.release id none).1.pools := by
  have _ := hi
  exact RM.release_twice_pools rm id hh

/-- Merging never changes any pool, and for two distinct reservations the merged reservation holds
the sum while the other holds nothing (so the total held is unchanged — `inv_apply`). -/
theorem merge_usage_unchanged (rm : RM) (a b : Nat) :
    (rm.merge a b).1.pools = rm.pools := by
  unfold RM.merge; split <;> try split
  all_goals rfl

theorem merge_holdings (rm : RM) (a b : Nat) (ha hb : Req) (hi : Inv rm) (hne : a ≠ b)
    (h1 : rm.held a = some ha) (h2 : rm.held b = some hb) :
    ∃ h', (rm.merge a b).1.held a = some h' ∧ (∀ r, amt h' r = amt ha r + amt hb r) ∧
      (rm.merge a b).1.held b = some [] := by
  obtain ⟨hbk, _, _⟩ := hi.rinv.of_held h2
  have heq : (rm.merge a b).1 = (rm.setHeld a (RM.mergeHeld ha hb)).setHeld b [] := by
    have hab : (a == b) = false := by simpa using hne
    unfold RM.merge; simp only [h1, h2, hab, Bool.false_eq_true, if_false]
  rw [heq]
  refine ⟨RM.mergeHeld ha hb, ?_, ?_, ?_⟩
  · rw [RM.held_setHeld_ne _ _ _ _ hne]
    exact RM.held_setHeld_self _ _ _ (by rw [h1]; rfl)
  · intro r; simp only [amt_eq]; exact RM.amtOf_mergeHeld _ _ hbk r
  · apply RM.held_setHeld_self
    rw [RM.held_setHeld_ne _ _ _ _ hne.symm, h2]; rfl

/-! ### non-vacuity -/

def exampleOps : List RMOp :=
  [.add 0 5, .add 1 2, .init, .reserve [(0, 2), (1, 1)], .reserve [(0, 4)], .reserve [(0, 3), (1, -1)],
   .release 0 (some [(0, 1)]), .add 0 (-4)]

example :
    (({} : RM).applyAll exampleOps).usage 0 = 1 ∧ (({} : RM).applyAll exampleOps).capacity 0 = 1 ∧
    (({} : RM).applyAll exampleOps).usage 1 = 1 ∧
    (({} : RM).applyAll exampleOps).held 0 = some [(0, 1), (1, 1)] ∧
    (({} : RM).applyAll exampleOps).resv.length = 1 := by
  decide

end C09
end SimProc
