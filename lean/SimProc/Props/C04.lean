/-
C04 — timing of a serial line equals the reference recurrence.

"For any serial line source → (handlers, processors, buffers)* → sink with constant cycle times,
buffer capacities and delays, the time at which the k-th part enters each station equals the
reference recurrence `D(j,k) = max(A(j,k)+c_j, D(j,k-1), D(j+1,k-K_{j+1}))` with `A(j,k) = D(j-1,k)`,
where the source starts its next cycle when the previous part leaves it and the sink frees its slot
`c` time units after receiving a part.  The match is exact and independent of the random tie-break
weights, so throughput and sink counts equal the reference's."

Contents
* `Ref.D`, `Ref.E`: the reference as a total, structurally recursive, executable function of a
  `Line` (defined part-major in `Proofs/C04Lemmas.lean`: `rows L k` = the rows of parts `k … 1`).
* algebraic facts about the reference (`Ref.*` theorems);
* the bridge `Line.toWorld`, `entryTimes`, the target statement `SerialTiming` (a `Prop`; it is
  PROVED IN FULL, for every well-formed line, as `C04W.serial_timing` in `Props/C04W.lean`), a sound
  boolean checker for instances (`checkB_sound`);
* the general proof for the shortest line, source → sink (`serial_timing_source_sink`, by an
  invariant over `runLoop`), that such a run completes when the budget is finite
  (`source_sink_completes`) and its weight independence (`source_sink_weight_independence`);
* kernel-evaluated TESTS of instances of `SerialTiming` on longer lines (`serial_timing_test_*`).
-/
import SimProc.Proofs.C04Lemmas
import SimProc.Proofs.C04SourceSinkRun

namespace SimProc
namespace C04
open World

/-! ### the reference, `Option`-valued -/

/-- Part `k` exists at station `j`: parts are numbered from 1, the source's budget is not
exceeded, the station is one of `0 … n`. -/
def Ref.Defined (L : Line) (j k : Nat) : Prop := 1 ≤ k ∧ inBudget L k = true ∧ j ≤ L.n

instance (L : Line) (j k : Nat) : Decidable (Ref.Defined L j k) := by
  unfold Ref.Defined; infer_instance

/-- Time at which part `k` leaves station `j` (`j = 0` the source, `j = n` the sink, where
"leaving" means that the sink's slot is free again).  `none`: no such part / station.

The definition mentions neither the seed nor the modulus of the tie-break weights: the reference
is weight independent by construction. -/
def Ref.D (L : Line) (j k : Nat) : Option Int :=
  if Ref.Defined L j k then some (dI L j k) else none

/-- Time at which part `k` enters station `j ≥ 1` (for `j = 0`: the time at which the source
starts the cycle that produces part `k`). -/
def Ref.E (L : Line) (j k : Nat) : Option Int :=
  if Ref.Defined L j k then some (eI L j k) else none

/-- The entry times `≤ T` into station `j` among the first `N` parts, in part order. -/
def Ref.entries (L : Line) (j : Nat) (T : Int) (N : Nat) : List Int :=
  (List.range N).filterMap (fun i => (Ref.E L j (i + 1)).filter (fun t => decide (t ≤ T)))

/-- Number of parts, among the first `N`, that have entered the sink by time `T`. -/
def countBy (L : Line) (T : Int) (N : Nat) : Nat := (Ref.entries L L.n T N).length

/-! ### algebraic facts -/

/-- Unfolding `Ref.D`: a value is the integer recurrence's, and the part/station exists. -/
theorem Ref.D_eq_some {L : Line} {j k : Nat} {x : Int} (h : Ref.D L j k = some x) :
    Ref.Defined L j k ∧ x = dI L j k := by
  unfold Ref.D at h
  split at h
  · next hd => exact ⟨hd, by simpa using h.symm⟩
  · simp at h

/-- Unfolding `Ref.E`. -/
theorem Ref.E_eq_some {L : Line} {j k : Nat} {x : Int} (h : Ref.E L j k = some x) :
    Ref.Defined L j k ∧ x = eI L j k := by
  unfold Ref.E at h
  split at h
  · next hd => exact ⟨hd, by simpa using h.symm⟩
  · simp at h

/-- `Ref.D` is defined exactly on the existing parts/stations. -/
theorem Ref.D_of_defined {L : Line} {j k : Nat} (h : Ref.Defined L j k) :
    Ref.D L j k = some (dI L j k) := by simp [Ref.D, h]

/-- `Ref.E` is defined exactly on the existing parts/stations. -/
theorem Ref.E_of_defined {L : Line} {j k : Nat} (h : Ref.Defined L j k) :
    Ref.E L j k = some (eI L j k) := by simp [Ref.E, h]

/-- Earlier parts exist if later ones do (the budget is a prefix). -/
theorem Ref.Defined.of_le {L : Line} {j k k' : Nat} (h : Ref.Defined L j k') (h1 : 1 ≤ k)
    (hk : k ≤ k') : Ref.Defined L j k :=
  ⟨h1, inBudget_of_le L hk h.2.1, h.2.2⟩

/-- A part enters station `j+1` exactly when it leaves station `j`. -/
theorem Ref.E_succ_eq_D (L : Line) (j k : Nat) (hj : j + 1 ≤ L.n) :
    Ref.E L (j + 1) k = Ref.D L j k := by
  by_cases h : Ref.Defined L j k
  · have h' : Ref.Defined L (j + 1) k := ⟨h.1, h.2.1, hj⟩
    rw [Ref.E_of_defined h', Ref.D_of_defined h]; rfl
  · have h' : ¬ Ref.Defined L (j + 1) k := fun hh => h ⟨hh.1, hh.2.1, by have := hh.2.2; omega⟩
    simp [Ref.E, Ref.D, h, h']

/-- The source starts the cycle of part `k+1` when part `k` leaves it (and the first at time 0). -/
theorem Ref.E_source (L : Line) (k : Nat) :
    Ref.E L 0 1 = (if inBudget L 1 then some 0 else none) ∧
    (Ref.Defined L 0 (k + 2) → Ref.E L 0 (k + 2) = Ref.D L 0 (k + 1)) := by
  constructor
  · unfold Ref.E Ref.Defined
    by_cases h : inBudget L 1 = true <;> simp [h, eI]
  · intro h
    rw [Ref.E_of_defined h, Ref.D_of_defined (h.of_le (by omega) (by omega))]
    rfl

/-- The recurrence itself, verbatim: for a station `j ≤ n` with record `s`,
`D j (k+1) = max (E j (k+1) + c_j) (D j k if j is a buffer) (D (j+1) (k+1-K_{j+1}))`, where a term
that refers to part `≤ 0`, to a station without capacity limit or beyond the sink is `0` (= −∞,
since all times are `≥ 0`). -/
theorem Ref.recurrence (L : Line) (hL : L.WF) (j k : Nat) (s : Station)
    (hs : L.stations[j]? = some s) :
    dI L j (k + 1) =
      max (max (eI L j (k + 1) + s.c) (if s.isBuffer then dI L j k else 0))
        (blockI L (j + 1) (k + 1)) :=
  dI_rec L hL j k s hs

/-- Parts do not overtake: part `k+1` leaves station `j` no earlier than part `k`
(FIFO; in particular for buffers). -/
theorem Ref.D_mono (L : Line) (hL : L.WF) (j k : Nat) (x y : Int)
    (hx : Ref.D L j k = some x) (hy : Ref.D L j (k + 1) = some y) : x ≤ y := by
  rw [(Ref.D_eq_some hx).2, (Ref.D_eq_some hy).2]
  exact dI_mono L hL j k

/-- If part `k+1` is defined at a station, so is part `k ≥ 1`. -/
theorem Ref.D_defined_pred (L : Line) (j k : Nat) (y : Int) (hk : 1 ≤ k)
    (hy : Ref.D L j (k + 1) = some y) : ∃ x, Ref.D L j k = some x :=
  ⟨_, Ref.D_of_defined ((Ref.D_eq_some hy).1.of_le hk (by omega))⟩

/-- Entry times are non-decreasing in the part number. -/
theorem Ref.E_mono (L : Line) (hL : L.WF) (j : Nat) {k k' : Nat} (x y : Int) (hk : k ≤ k')
    (hx : Ref.E L j k = some x) (hy : Ref.E L j k' = some y) : x ≤ y := by
  rw [(Ref.E_eq_some hx).2, (Ref.E_eq_some hy).2]
  exact eI_mono_le L hL j hk

/-- No part leaves early: a part that enters station `j` does leave it, at least `c_j` later. -/
theorem Ref.D_ge_E_add (L : Line) (hL : L.WF) (j k : Nat) (s : Station) (e : Int)
    (hs : L.stations[j]? = some s) (he : Ref.E L j k = some e) :
    ∃ d, Ref.D L j k = some d ∧ e + s.c ≤ d := by
  obtain ⟨hd, rfl⟩ := Ref.E_eq_some he
  refine ⟨_, Ref.D_of_defined hd, ?_⟩
  obtain ⟨k, rfl⟩ : ∃ k', k = k' + 1 := ⟨k - 1, by have := hd.1; omega⟩
  rw [dI_rec L hL j k s hs]
  omega

/-- FIFO at every station (in particular at buffers): `D j k ≥ D j (k-1)`. -/
theorem Ref.D_ge_prev (L : Line) (hL : L.WF) (j k : Nat) (d : Int)
    (hd : Ref.D L j (k + 1) = some d) : dI L j k ≤ d := by
  rw [(Ref.D_eq_some hd).2]; exact dI_mono L hL j k

/-- Blocking: part `k+K` cannot leave station `j` before part `k` has left station `j+1`, where
`K` is the number of slots of station `j+1`. -/
theorem Ref.D_ge_block (L : Line) (hL : L.WF) (j k K : Nat) (s' : Station) (x y : Int)
    (hs : L.stations[j + 1]? = some s') (hK : s'.effCap = some K)
    (hx : Ref.D L (j + 1) k = some x) (hy : Ref.D L j (k + K) = some y) : x ≤ y := by
  obtain ⟨_, rfl⟩ := Ref.D_eq_some hx
  obtain ⟨hd, rfl⟩ := Ref.D_eq_some hy
  obtain ⟨s, hs0⟩ := station_exists L j hd.2.2
  have h1 : 1 ≤ K := (station_wf L hL (j + 1) s' hs).2 K hK
  obtain ⟨m, hm⟩ : ∃ m, k + K = m + 1 := ⟨k + K - 1, by omega⟩
  rw [hm, dI_rec L hL j m s hs0]
  have : blockI L (j + 1) (m + 1) = dI L (j + 1) k := by
    simp only [blockI, hs, hK]
    congr 1
    omega
  omega

/-- All times are non-negative. -/
theorem Ref.D_nonneg (L : Line) (hL : L.WF) (j k : Nat) (x : Int) (hx : Ref.D L j k = some x) :
    0 ≤ x := by
  rw [(Ref.D_eq_some hx).2]; exact dI_nonneg L hL j k

/-- All entry times are non-negative. -/
theorem Ref.E_nonneg (L : Line) (hL : L.WF) (j k : Nat) (x : Int) (hx : Ref.E L j k = some x) :
    0 ≤ x := by
  rw [(Ref.E_eq_some hx).2]; exact eI_nonneg L hL j k

/-- Considering one more part appends its entry time if it is `≤ T`. -/
theorem Ref.entries_succ (L : Line) (j : Nat) (T : Int) (N : Nat) :
    Ref.entries L j T (N + 1) =
      Ref.entries L j T N ++ ((Ref.E L j (N + 1)).filter (fun t => decide (t ≤ T))).toList := by
  simp only [Ref.entries, List.range_succ, List.filterMap_append, List.filterMap_cons,
    List.filterMap_nil]
  cases Option.filter (fun t => decide (t ≤ T)) (Ref.E L j (N + 1)) <;> rfl

/-- Once a part enters after `T` (or does not exist), considering more parts changes nothing. -/
theorem Ref.entries_stable (L : Line) (hL : L.WF) (j : Nat) (T : Int) (N0 N : Nat)
    (hN : N0 ≤ N) (h0 : ∀ t, Ref.E L j (N0 + 1) = some t → T < t) :
    Ref.entries L j T N = Ref.entries L j T N0 := by
  induction N with
  | zero => have : N0 = 0 := by omega
            subst this; rfl
  | succ N ih =>
    by_cases hN' : N0 = N + 1
    · subst hN'; rfl
    · rw [Ref.entries_succ, ih (by omega)]
      cases he : Ref.E L j (N + 1) with
      | none => simp
      | some t' =>
        have hd := (Ref.E_eq_some he).1
        have hd0 : Ref.Defined L j (N0 + 1) := hd.of_le (by omega) (by omega)
        have h1 := h0 _ (Ref.E_of_defined hd0)
        have h2 := Ref.E_mono L hL j _ _ (by omega : N0 + 1 ≤ N + 1) (Ref.E_of_defined hd0) he
        have : ¬ t' ≤ T := by omega
        simp [Option.filter, this]

/-- The count of parts that entered the sink by time `T` is non-decreasing in `T`. -/
theorem countBy_mono (L : Line) (N : Nat) {T T' : Int} (h : T ≤ T') :
    countBy L T N ≤ countBy L T' N := by
  unfold countBy
  induction N with
  | zero => simp [Ref.entries]
  | succ N ih =>
    rw [Ref.entries_succ, Ref.entries_succ, List.length_append, List.length_append]
    refine Nat.add_le_add ih ?_
    cases Ref.E L L.n (N + 1) with
    | none => simp
    | some t =>
      by_cases ht : t ≤ T
      · have : t ≤ T' := by omega
        simp [Option.filter, ht, this]
      · simp [Option.filter, ht]

/-- … and in the number of parts considered. -/
theorem countBy_mono_parts (L : Line) (T : Int) {N N' : Nat} (h : N ≤ N') :
    countBy L T N ≤ countBy L T N' := by
  unfold countBy
  induction N' with
  | zero => have : N = 0 := by omega
            subst this; exact Nat.le_refl _
  | succ N' ih =>
    by_cases hN : N = N' + 1
    · subst hN; exact Nat.le_refl _
    · rw [Ref.entries_succ, List.length_append]
      exact Nat.le_trans (ih (by omega)) (Nat.le_add_right _ _)

/-! ### bridge to the executable model -/

/-! The bridge definitions `Station.toDev`, `Line.toWorld` (the world of the scenario
`seed …; asset dev source cyc=c0 budget=…; asset dev handler|processor up=… cyc=… /
asset dev buffer up=… cap=… delay=…; asset dev sink up=… cyc=cn`, built with `World.addAsset`
exactly as the driver does), `entryTimes` (the times of the `received_part` records of a device)
and `runLine` (`simulateInit`, `runBegin T`, `runLoop f`) are defined in `Proofs/C04Lemmas.lean`,
because the lemmas about the source → sink machine need them. -/

/-- The statement for one line / seed / weight modulus / horizon / fuel: if the run completed (no
model error; in particular the fuel sufficed), then for every station `j = 1 … n` the entry times
logged by the simulator are exactly the reference's entry times `≤ T`, in part order (`N` bounds
the parts considered; any bound from the number of parts created on works), and the sink's part
count equals the reference's count. -/
def SerialTimingAt (L : Line) (seed wmod : Nat) (T : Int) (f : Nat) : Prop :=
  (runLine L seed wmod T f).error = none →
    ∀ N, (runLine L seed wmod T f).parts.length ≤ N →
      (∀ j, 1 ≤ j → j ≤ L.n → entryTimes (runLine L seed wmod T f) j = Ref.entries L j T N) ∧
      ((runLine L seed wmod T f).dev L.n).recvCount = countBy L T N

/-- **Target theorem, as a proposition** (proved: `C04W.serial_timing`).  For every well-formed line (cycle times
and delays `≥ 0`, capacities `≥ 1`), every seed and modulus of the tie-break weights, every
horizon and every amount of fuel with which the run completes, the simulator's entry times equal
the reference's.  (For a Zeno line — e.g. all cycle times 0 and no budget — no fuel suffices, just
as the real simulator does not return; see `serial_timing_test_*` for non-vacuity.) -/
def SerialTiming : Prop :=
  ∀ (L : Line) (seed wmod : Nat) (T : Int) (f : Nat), L.WF → SerialTimingAt L seed wmod T f

/-- Weight independence is a consequence of the target statement: runs that differ only in the
tie-break weights log the same entry times. -/
theorem weight_independence_of_serial_timing (h : SerialTiming) (L : Line) (hL : L.WF)
    (seed wmod seed' wmod' : Nat) (T : Int) (f f' : Nat)
    (he : (runLine L seed wmod T f).error = none) (he' : (runLine L seed' wmod' T f').error = none)
    (j : Nat) (h1 : 1 ≤ j) (hj : j ≤ L.n) :
    entryTimes (runLine L seed wmod T f) j = entryTimes (runLine L seed' wmod' T f') j := by
  let N := max (runLine L seed wmod T f).parts.length (runLine L seed' wmod' T f').parts.length
  rw [((h L seed wmod T f hL) he N (Nat.le_max_left _ _)).1 j h1 hj,
      ((h L seed' wmod' T f' hL) he' N (Nat.le_max_right _ _)).1 j h1 hj]

/-! ### a sound checker for instances -/

/-- Boolean check of one instance: the run completed, the logged entry times of every station
equal the reference's among the parts created, the next part enters after `T` (or does not exist)
and the sink's count is the reference's. -/
def checkB (L : Line) (seed wmod : Nat) (T : Int) (f : Nat) : Bool :=
  let w := runLine L seed wmod T f
  w.error.isNone &&
  (List.range L.n).all (fun i =>
    entryTimes w (i + 1) == Ref.entries L (i + 1) T w.parts.length &&
    (match Ref.E L (i + 1) (w.parts.length + 1) with
     | none => true
     | some t => decide (T < t))) &&
  (w.dev L.n).recvCount == countBy L T w.parts.length

/-- The checker is sound: a successful check proves the instance of the statement (for every
bound `N` on the parts considered, by `Ref.entries_stable`) and that the run completed. -/
theorem checkB_sound (L : Line) (hL : L.WF) (seed wmod : Nat) (T : Int) (f : Nat)
    (h : checkB L seed wmod T f = true) :
    (runLine L seed wmod T f).error = none ∧ SerialTimingAt L seed wmod T f := by
  simp only [checkB, Bool.and_eq_true, List.all_eq_true, List.mem_range, beq_iff_eq,
    Option.isNone_iff_eq_none] at h
  obtain ⟨⟨he, hall⟩, hc⟩ := h
  refine ⟨he, fun _ N hN => ?_⟩
  have key : ∀ j, 1 ≤ j → j ≤ L.n →
      Ref.entries L j T N = Ref.entries L j T (runLine L seed wmod T f).parts.length := by
    intro j h1 hj
    obtain ⟨i, rfl⟩ : ∃ i, j = i + 1 := ⟨j - 1, by omega⟩
    have := (hall i (by omega)).2
    refine Ref.entries_stable L hL (i + 1) T _ N hN ?_
    intro t ht
    rw [ht] at this
    simpa using this
  constructor
  · intro j h1 hj
    obtain ⟨i, rfl⟩ : ∃ i, j = i + 1 := ⟨j - 1, by omega⟩
    rw [key (i + 1) h1 hj]
    exact (hall i (by omega)).1
  · rw [hc]
    unfold countBy
    rw [key L.n (by unfold Line.n; omega) (Nat.le_refl _)]

/-! ### the general theorem for the shortest line: source → sink -/

/-- If the first `k` parts all exist at station `j` and enter it by `T`, the reference's entry
list among them is simply the list of their entry times. -/
theorem Ref.entries_eq_map (L : Line) (j : Nat) (T : Int) (k : Nat) (hj : j ≤ L.n)
    (hb : inBudget L k = true) (hle : ∀ i, i < k → eI L j (i + 1) ≤ T) :
    Ref.entries L j T k = (List.range k).map (fun i => eI L j (i + 1)) := by
  induction k with
  | zero => rfl
  | succ k ih =>
    have hd : Ref.Defined L j (k + 1) := ⟨by omega, hb, hj⟩
    rw [Ref.entries_succ, ih (inBudget_of_le L (by omega) hb) (fun i hi => hle i (by omega)),
      Ref.E_of_defined hd, List.range_succ, List.map_append]
    have := hle k (by omega)
    simp [Option.filter, this]

/-- **C04 for the source → sink line, in general.**  For every line without inner stations
(`mids = []`) with non-negative cycle times, every budget, every seed and modulus of the
tie-break weights, every horizon `T` (also negative) and every amount of fuel: if the run
completes, the sink's `received_part` times are exactly the reference's entry times `≤ T`, and
the sink's part count is the reference's count.  Proved by an invariant over `runLoop`
(`Proofs/C04SourceSink.lean`: the reachable worlds in closed form and what every model function
does to them; `Proofs/C04SourceSinkRun.lean`: the invariant `SS.RunInv`, one lemma per kind of
event, `SS.run_done`). -/
theorem serial_timing_source_sink (L : Line) (hm : L.mids = []) (hL : L.WF)
    (seed wmod : Nat) (T : Int) (f : Nat) : SerialTimingAt L seed wmod T f := by
  obtain ⟨c0, budget, mids, cn⟩ := L
  simp only at hm
  subst hm
  let P : SS.Par := ⟨c0, cn, budget, seed, wmod⟩
  have hLP : (⟨c0, budget, [], cn⟩ : Line) = SS.line P := rfl
  have h0 : 0 ≤ c0 := (hL ⟨.handler, c0, some 1⟩ (by simp [Line.stations])).1
  have hn : 0 ≤ cn := (hL ⟨.handler, cn, some 1⟩ (by simp [Line.stations])).1
  intro he N hN
  obtain ⟨s', hw, d⟩ := SS.run_done P T f h0 hn he
  obtain ⟨_, k, hent, hrc, hk, hle, hbud, hlast⟩ := d
  have hw' : runLine ⟨c0, budget, [], cn⟩ seed wmod T f = SS.W P s' := hw
  rw [hw'] at hN ⊢
  have hkN : k ≤ N := Nat.le_trans hk hN
  have hbk : inBudget (SS.line P) k = true := by
    unfold inBudget
    cases hb : (SS.line P).budget with
    | none => rfl
    | some B => simpa using hbud B hb
  -- the reference's entries among the first `N` parts are those among the first `k`
  have hst : Ref.entries (SS.line P) 1 T N = Ref.entries (SS.line P) 1 T k := by
    refine Ref.entries_stable (SS.line P) hL 1 T k N hkN ?_
    intro t ht
    obtain ⟨hd, rfl⟩ := Ref.E_eq_some ht
    rcases hlast with ⟨B, hB, hBk⟩ | hgt
    · have := hd.2.1
      unfold inBudget at this
      have hB' : (SS.line P).budget = some B := hB
      rw [hB'] at this
      simp at this
      omega
    · exact hgt
  have hmap : Ref.entries (SS.line P) 1 T k = (List.range k).map (fun i => SS.D0 P (i + 1)) :=
    Ref.entries_eq_map (SS.line P) 1 T k (Nat.le_refl _) hbk hle
  constructor
  · intro j h1 hj
    have hj1 : j = 1 := by
      have : (SS.line P).n = 1 := rfl
      have : j ≤ 1 := hj
      omega
    subst hj1
    show entryTimes (SS.W P s') 1 = Ref.entries (SS.line P) 1 T N
    rw [SS.entryTimes_W, hent, hst, hmap]
  · show s'.rc = ((countBy (SS.line P) T N : Nat) : Int)
    unfold countBy
    show s'.rc = (((Ref.entries (SS.line P) 1 T N).length : Nat) : Int)
    rw [hrc, hst, hmap]
    simp

/-- **With a finite budget the source → sink run always completes**: `7 * B + 5` units of fuel
suffice (every hand-over takes at most four events, plus the sink's last cycle and the terminate
event), whatever the cycle times (also all zero), the weights and the horizon.  So for these lines
the hypothesis "the run completed" of `SerialTimingAt` can be discharged. -/
theorem source_sink_completes (L : Line) (hm : L.mids = []) (hL : L.WF) (B : Nat)
    (hB : L.budget = some B) (seed wmod : Nat) (T : Int) (f : Nat) (hf : 7 * B + 5 ≤ f) :
    (runLine L seed wmod T f).error = none := by
  obtain ⟨c0, budget, mids, cn⟩ := L
  simp only at hm hB
  subst hm
  have h0 : 0 ≤ c0 := (hL ⟨.handler, c0, some 1⟩ (by simp [Line.stations])).1
  have hn : 0 ≤ cn := (hL ⟨.handler, cn, some 1⟩ (by simp [Line.stations])).1
  exact SS.run_completes ⟨c0, cn, budget, seed, wmod⟩ T f h0 hn B hB hf

/-- The unconditional form for a source with a finite budget: with `7 * B + 5` units of fuel the
sink's entry times and count are the reference's. -/
theorem serial_timing_source_sink_budget (L : Line) (hm : L.mids = []) (hL : L.WF) (B : Nat)
    (hB : L.budget = some B) (seed wmod : Nat) (T : Int) (f : Nat) (hf : 7 * B + 5 ≤ f)
    (N : Nat) (hN : (runLine L seed wmod T f).parts.length ≤ N) :
    entryTimes (runLine L seed wmod T f) 1 = Ref.entries L 1 T N ∧
    ((runLine L seed wmod T f).dev 1).recvCount = countBy L T N := by
  have he := source_sink_completes L hm hL B hB seed wmod T f hf
  have h := serial_timing_source_sink L hm hL seed wmod T f he N hN
  have hn : L.n = 1 := by simp [Line.n, hm]
  rw [hn] at h
  exact ⟨h.1 1 (Nat.le_refl _) (Nat.le_refl _), h.2⟩

/-- Weight independence for the source → sink line, unconditionally proved: two completed runs
that differ only in the seed / modulus of the tie-break weights (and in the fuel) log the same
entry times at the sink. -/
theorem source_sink_weight_independence (L : Line) (hm : L.mids = []) (hL : L.WF)
    (seed wmod seed' wmod' : Nat) (T : Int) (f f' : Nat)
    (he : (runLine L seed wmod T f).error = none) (he' : (runLine L seed' wmod' T f').error = none) :
    entryTimes (runLine L seed wmod T f) 1 = entryTimes (runLine L seed' wmod' T f') 1 := by
  have hn : L.n = 1 := by simp [Line.n, hm]
  let N := max (runLine L seed wmod T f).parts.length (runLine L seed' wmod' T f').parts.length
  have h1 := (serial_timing_source_sink L hm hL seed wmod T f he N (Nat.le_max_left _ _)).1 1
    (Nat.le_refl _) (by omega)
  have h2 := (serial_timing_source_sink L hm hL seed' wmod' T f' he' N (Nat.le_max_right _ _)).1 1
    (Nat.le_refl _) (by omega)
  rw [h1, h2]

/-! ### TESTS of the target statement on concrete lines (kernel evaluation)

Each `serial_timing_test_*` is an INSTANCE of `SerialTiming` (one line, seed, weight modulus,
horizon, fuel) together with the fact that the run completed, checked by evaluating the model and
the reference in the kernel (`checkB_sound`).  They are tests, not the general theorem. -/

/-- handler, bounded buffer, processor; positive cycle times, no budget. -/
def lineA : Line :=
  { c0 := 3, mids := [⟨.handler, 5, none⟩, ⟨.buffer, 2, some 2⟩, ⟨.processor, 7, none⟩], cn := 1 }
/-- zero cycle times, bounded and unbounded buffers, finite budget. -/
def lineB : Line :=
  { c0 := 0, budget := some 7,
    mids := [⟨.buffer, 0, some 3⟩, ⟨.handler, 0, none⟩, ⟨.buffer, 4, none⟩], cn := 2 }
/-- source → sink with a budget. -/
def lineC : Line := { c0 := 2, budget := some 4, mids := [], cn := 5 }
/-- no budget, zero-cycle source blocked by a capacity-1 buffer in front of a slow handler. -/
def lineD : Line :=
  { c0 := 0, mids := [⟨.buffer, 0, some 1⟩, ⟨.handler, 3, none⟩, ⟨.processor, 0, none⟩], cn := 0 }
/-- everything zero (bounded by the budget only), horizon 0. -/
def lineE : Line :=
  { c0 := 0, budget := some 5, mids := [⟨.handler, 0, none⟩, ⟨.buffer, 0, some 2⟩], cn := 0 }

theorem serial_timing_test_A_w0 :
    (runLine lineA 1 0 60 400).error = none ∧ SerialTimingAt lineA 1 0 60 400 :=
  checkB_sound _ (by decide) _ _ _ _ (by decide +kernel)
theorem serial_timing_test_A_w5 :
    (runLine lineA 3 5 60 400).error = none ∧ SerialTimingAt lineA 3 5 60 400 :=
  checkB_sound _ (by decide) _ _ _ _ (by decide +kernel)
theorem serial_timing_test_B_w0 :
    (runLine lineB 1 0 30 400).error = none ∧ SerialTimingAt lineB 1 0 30 400 :=
  checkB_sound _ (by decide) _ _ _ _ (by decide +kernel)
theorem serial_timing_test_B_w7 :
    (runLine lineB 2 7 30 400).error = none ∧ SerialTimingAt lineB 2 7 30 400 :=
  checkB_sound _ (by decide) _ _ _ _ (by decide +kernel)
theorem serial_timing_test_C_w0 :
    (runLine lineC 1 0 100 100).error = none ∧ SerialTimingAt lineC 1 0 100 100 :=
  checkB_sound _ (by decide) _ _ _ _ (by decide +kernel)
theorem serial_timing_test_C_w3 :
    (runLine lineC 9 3 11 100).error = none ∧ SerialTimingAt lineC 9 3 11 100 :=
  checkB_sound _ (by decide) _ _ _ _ (by decide +kernel)
theorem serial_timing_test_D_w0 :
    (runLine lineD 1 0 20 400).error = none ∧ SerialTimingAt lineD 1 0 20 400 :=
  checkB_sound _ (by decide) _ _ _ _ (by decide +kernel)
theorem serial_timing_test_D_w11 :
    (runLine lineD 4 11 20 400).error = none ∧ SerialTimingAt lineD 4 11 20 400 :=
  checkB_sound _ (by decide) _ _ _ _ (by decide +kernel)
theorem serial_timing_test_E_w0 :
    (runLine lineE 1 0 0 400).error = none ∧ SerialTimingAt lineE 1 0 0 400 :=
  checkB_sound _ (by decide) _ _ _ _ (by decide +kernel)
theorem serial_timing_test_E_w2 :
    (runLine lineE 5 2 3 400).error = none ∧ SerialTimingAt lineE 5 2 3 400 :=
  checkB_sound _ (by decide) _ _ _ _ (by decide +kernel)

/-! ### non-vacuity -/

-- the reference is executable; e.g. line A: the rows of the first three parts
example : (rows lineA 3).reverse = [[3, 8, 10, 17, 18], [8, 13, 17, 24, 25], [13, 18, 24, 31, 32]] := by
  decide
example : Ref.E lineA 4 3 = some 31 ∧ Ref.D lineA 0 1 = some 3 ∧ Ref.E lineC 1 5 = none := by decide
-- the hypotheses of the algebraic facts are satisfiable and the conclusions non-trivial
example : lineA.WF ∧ lineB.WF ∧ lineC.WF ∧ lineD.WF ∧ lineE.WF := by decide
example : Ref.D lineA 2 2 = some 17 ∧ Ref.D lineA 2 3 = some 24 := by decide   -- `D_mono`, strict
example : Ref.D lineA 2 1 = some 10 ∧ Ref.D lineA 1 3 = some 18 := by decide   -- `D_ge_block`, K = 2
example : countBy lineA 30 10 = 2 ∧ countBy lineA 60 10 = 7 := by decide        -- `countBy_mono`
-- the simulator really logs entries, and the runs of the tests complete
example : entryTimes (runLine lineA 1 0 60 400) 4 = [17, 24, 31, 38, 45, 52, 59] := by decide +kernel
example : entryTimes (runLine lineD 4 11 20 400) 1 = [0, 0, 3, 6, 9, 12, 15, 18] := by decide +kernel
-- `serial_timing_source_sink`: its hypotheses hold for line C, the run completes and the
-- conclusion is about a non-empty log
example : lineC.mids = [] ∧ lineC.WF ∧ (runLine lineC 9 3 11 100).error = none ∧
    entryTimes (runLine lineC 9 3 11 100) 1 = [2, 7] := by decide +kernel
-- a Zeno line (all cycle times 0, no budget): the run does not complete with 200 units of fuel
example : (runLine { c0 := 0, mids := [], cn := 0 } 1 0 5 200).error = some "fuel" := by
  decide +kernel

end C04
end SimProc
