/-
C18D — action schedules follow their timetable in worlds that CONSTRUCT SCHEDULERS WHILE RUNNING.

`Props/C18W.lean` proves the timetable theorems for every state reachable from a fresh world whose
scripts create nothing.  Here the scripts run by events (also the scripts run by maintenance hooks and
by callbacks of the resource manager), and the operations issued from outside between steps / between
two runs, may call constructors: `create (.sched tt cyc)` (payload clause `schedNew`: no negative
duration), `create (.maint …)`, `create .cms`.

STATIC CLASS `SD w0`: `C18W.Static` of the world without its scripts (asset ids of schedulers and
sensors differ from 0 and from the device ids, durations / intervals not negative, registry without
duplicates and dangling entries), `C18W.Fresh`, the registration invariant `C20W.Reg` (every
component is registered, asset id = registration index + 1 — what makes the id handed out by a later
constructor call fresh), and the scripts are in the dynamic class `opD`: no `pause` / `unpause` /
`cancel` of an initial scheduler / sensor id nor of an id larger than the initial registry (the ids
later constructor calls hand out), constructor calls only for schedulers (`schedNew`), maintainers, cms.
NOT covered (the invariant of C18W/C19W is not indifferent to them without further clauses): `create`
of devices, groups and sensors.

REACHABLE STATES `ReachD w0 A w` carry the ANCHORS `A s` (the time at which scheduler `s` was
initialised): `A s = w0.now` for the schedulers of `w0` (`anchor_initial`); a scheduler constructed
during a step is anchored at the time of that step (`anchor_created_step`), one constructed from
outside — e.g. between two runs — at the clock of that moment, the end time of the previous run
(`anchor_created_outside`); anchors never change (`stepA`, `ext`, `anchor_run`).

1. `pending_transition_dyn`, `records_timetable_prefix_dyn`, `transition_step_dyn`: the theorems of
   C18W with `t0 = A s`, for every scheduler, initial or constructed.
2. `late_equals_early_shifted`: two schedulers with the same timetable (in the same or in different
   worlds): records and pending event of one are those of the other shifted by the difference of the
   anchors; `late_equals_early_shifted_initial` for an initial scheduler of another world.
3. `schedNew_needed`: a negative duration in a constructed scheduler breaks the chain.
Machinery: `Proofs/C18DInv.lean`, `Proofs/C18DWorld.lean`.
-/
import SimProc.Proofs.C18DWorld
import SimProc.Props.C18W

namespace SimProc
namespace C18D
open World FloorCoreL C18W C19W
open C03W (noScr)

/-! ### the class, the reachable states -/

/-- **The static class.** -/
structure SD (w : World) : Prop where
  stat : C18W.Static (noScr w)
  fresh : C18W.Fresh w
  reg : C20W.Reg w
  scr : ∀ l ∈ w.scripts, ∀ op ∈ l, opD (tk w).ta w.assets.length op = true

/-- The states reachable from `w0`, with the anchors of the schedulers. -/
inductive ReachD (w0 : World) : (Nat → Int) → World → Prop where
  | init : ReachD w0 (fun _ => w0.now) w0.simulateInit
  | step {A : Nat → Int} {w w' : World} {e : Event} : ReachD w0 A w → w.step = some (e, w') →
      ReachD w0 (stepA A w w') w'
  | run {A : Nat → Int} {w : World} (n : Nat) : ReachD w0 A w → ReachD w0 (runA n A w) (runLoop n w)
  | runBegin {A : Nat → Int} {w : World} (d : Int) : ReachD w0 A w → ReachD w0 A (w.runBegin d).1
  | ops {A : Nat → Int} {w : World} (ops : List Op) : ReachD w0 A w →
      (∀ op ∈ ops, opD (tk w0).ta w0.assets.length op = true) → ReachD w0 (ext A w) (w.applyOps ops)

/-- **The invariant holds in every reachable state.** -/
theorem wd_reachable {w0 w : World} {A : Nat → Int} (hs : SD w0) (hr : ReachD w0 A w) :
    WD (ctxOf w0) A w := by
  induction hr with
  | init => exact wd_init hs.stat hs.fresh hs.reg hs.scr
  | step _ hst ih => exact (ih.step hst).1
  | run n _ ih => exact (ih.runLoop n).1
  | runBegin d _ ih => exact ih.runBegin d
  | ops ops _ hops ih => exact (ih.applyOps ops hops).1

/-! ### the anchors -/

/-- The scheduler list only grows; the schedulers of the fresh world are anchored at its clock. -/
theorem anchor_initial {w0 w : World} {A : Nat → Int} (hs : SD w0) (hr : ReachD w0 A w) :
    w0.scheds.length ≤ w.scheds.length ∧ ∀ s, s < w0.scheds.length → A s = w0.now := by
  induction hr with
  | init =>
    have h := wd_init hs.stat hs.fresh hs.reg hs.scr
    have := ginit_simulateInit hs.stat (fresh_noScr hs.fresh)
    rw [show (noScr w0).simulateInit = noScr w0.simulateInit from C03W.es_simulateInit w0 []] at this
    have hl := this.lengths.1
    simp only [sstat, List.length_map] at hl
    exact ⟨Nat.le_of_eq (Eq.symm hl), fun _ _ => rfl⟩
  | step hp hst ih =>
    have := ((wd_reachable hs hp).step hst).2
    refine ⟨by omega, fun s hlt => ?_⟩
    have : s < _ := Nat.lt_of_lt_of_le hlt ih.1
    simp [stepA, this, ih.2 s hlt]
  | run n hp ih =>
    obtain ⟨_, a, l⟩ := (wd_reachable hs hp).runLoop n
    exact ⟨by omega, fun s hlt => by rw [a s (by omega), ih.2 s hlt]⟩
  | @runBegin A1 w1 d hp ih =>
    have := (C20W.Same_runBegin w1 d).scheds_length
    exact ⟨by rw [this]; exact ih.1, ih.2⟩
  | ops ops hp hops ih =>
    obtain ⟨_, _, l⟩ := (wd_reachable hs hp).applyOps ops hops
    refine ⟨by omega, fun s hlt => ?_⟩
    have : s < _ := Nat.lt_of_lt_of_le hlt ih.1
    simp [ext, this, ih.2 s hlt]

/-- A scheduler constructed during a step (by a script) is anchored at the time of that step; the
others keep their anchors. -/
theorem anchor_created_step (A : Nat → Int) (w w' : World) (s : Nat) :
    (w.scheds.length ≤ s → stepA A w w' s = w'.now) ∧ (s < w.scheds.length → stepA A w w' s = A s) := by
  constructor
  · intro h; simp [stepA, Nat.not_lt.mpr h]
  · intro h; simp [stepA, h]

/-- A scheduler constructed from outside — e.g. after a run has ended — is anchored at the clock of
that moment (the end time of the previous run); the others keep their anchors. -/
theorem anchor_created_outside (A : Nat → Int) (w : World) (s : Nat) :
    (w.scheds.length ≤ s → ext A w s = w.now) ∧ (s < w.scheds.length → ext A w s = A s) := by
  constructor
  · intro h; simp [ext, Nat.not_lt.mpr h]
  · intro h; simp [ext, h]

/-- Running the loop keeps the anchors of the schedulers that exist. -/
theorem anchor_run {w0 w : World} {A : Nat → Int} (hs : SD w0) (hr : ReachD w0 A w) (n : Nat) (s : Nat)
    (h : s < w.scheds.length) : runA n A w s = A s :=
  ((wd_reachable hs hr).runLoop n).2.1 s h

/-- What a constructor call for a scheduler does in a started world: the scheduler `(tt, cyc)` is
appended with the next asset id, registered, and initialised at once. -/
theorem create_sched_spec (w : World) (tt : List (Int × Int)) (cyc : Bool) (hst : w.started = true) :
    (w.applyOp (.create (.sched tt cyc))).1 =
      (regSched w (newSched w tt cyc)).schedUpdate w.scheds.length false :=
  addSched_eq w tt cyc hst

/-! ### C18D-1: the pending transition event -/

theorem transitions_noScr (w : World) (s : Nat) : schedLog (tk (noScr w)).recsT s = transitions w s :=
  transitions_tk w s

/-- **C18D-1.**  `C18W.pending_transition` for every scheduler `s` that exists in a reachable state —
present from the start or constructed at time `A s` while running / between two runs: exactly one
live transition event, due at `A s + T tt K`; none after the end of an acyclic schedule. -/
theorem pending_transition_dyn {w0 w : World} {A : Nat → Int} (hs : SD w0) (hr : ReachD w0 A w)
    {s : Nat} (hl : s < w.scheds.length) :
    ((w.scheds.getD s default).s.idx < (w.scheds.getD s default).s.tt.length →
      ∃ e, pendingEvents w s = [e] ∧ pausedEvents w s = [] ∧ e.cancelled = false ∧
        e.time = A s + C18.T (w.scheds.getD s default).s.tt (transitions w s).length ∧
        w.now ≤ e.time ∧ e.asset = (w.scheds.getD s default).aid ∧ e.prio = pOtherHigh) ∧
    ((w.scheds.getD s default).s.tt.length ≤ (w.scheds.getD s default).s.idx →
      pendingEvents w s = [] ∧ pausedEvents w s = [] ∧
      (transitions w s).length = (w.scheds.getD s default).s.tt.length ∧
      ((w.scheds.getD s default).s.cyc = false ∨ (w.scheds.getD s default).s.tt = [])) := by
  have hw := wd_reachable hs hr
  have hsi := (hw.gd.sched s).1 hl
  have hq := hw.inv
  unfold SI at hsi
  rw [transitions_noScr] at hsi
  constructor
  · intro hlt
    obtain ⟨_, _, _, ⟨e, h1, h2, h3, h4, h5⟩, h6⟩ := hsi.running hlt
    refine ⟨e, h1, h6, h3, h2, ?_, h4, h5⟩
    have hm : e ∈ w.env.events.filter (suEv s) := by
      rw [show w.env.events.filter (suEv s) = [e] from h1]; simp
    exact hq.future e (List.mem_filter.mp hm).1
  · intro hge
    obtain ⟨h1, h2, h3, _, h5⟩ := hsi.ended hge
    refine ⟨h1, h2, h3, ?_⟩
    rcases h5 with h5 | h5
    · exact Or.inl h5
    · exact Or.inr (List.length_eq_zero_iff.mp h5)

/-! ### C18D-2: the records are a prefix of the timetable anchored at `A s` -/

/-- **C18D-2.**  The records of scheduler `s` are the first `K` entries `(A s + T tt k, state k)` of
its timetable run started at its anchor; all at or before the clock; at least the initial transition;
at most `n` for an acyclic one; the current state is that of the last record. -/
theorem records_timetable_prefix_dyn {w0 w : World} {A : Nat → Int} (hs : SD w0) (hr : ReachD w0 A w)
    {s : Nat} (hl : s < w.scheds.length) :
    transitions w s = (List.range (transitions w s).length).map (fun k =>
      (A s + C18.T (w.scheds.getD s default).s.tt k,
       ((w.scheds.getD s default).s.tt.getD (k % (w.scheds.getD s default).s.tt.length) (0, 0)).2)) ∧
    (∀ k, k < (transitions w s).length →
      A s + C18.T (w.scheds.getD s default).s.tt k ≤ w.now) ∧
    ((w.scheds.getD s default).s.tt ≠ [] → 1 ≤ (transitions w s).length) ∧
    ((w.scheds.getD s default).s.cyc = false →
      (transitions w s).length ≤ (w.scheds.getD s default).s.tt.length) ∧
    (1 ≤ (transitions w s).length → (w.scheds.getD s default).s.state =
      some ((w.scheds.getD s default).s.tt.getD
        (((transitions w s).length - 1) % (w.scheds.getD s default).s.tt.length) (0, 0)).2) := by
  have hw := wd_reachable hs hr
  have hsi := (hw.gd.sched s).1 hl
  unfold SI at hsi
  rw [transitions_noScr, show (tk (noScr w)).scheds = w.scheds from rfl] at hsi
  have hd : ∀ p ∈ (w.scheds.getD s default).s.tt, 0 ≤ p.1 := hw.gd.sok.dur_at s
  refine ⟨hsi.log, ?_, ?_, ?_, fun hk => (hsi.last hk).1⟩
  · intro k hk
    have h1 := (hsi.last (by omega)).2
    have h2 := T_mono hd (show k ≤ (transitions w s).length - 1 by omega)
    show _ ≤ w.env.now
    omega
  · intro hne
    have hpos : 0 < (w.scheds.getD s default).s.tt.length := List.length_pos_iff.mpr hne
    by_cases hlt' : (w.scheds.getD s default).s.idx < (w.scheds.getD s default).s.tt.length
    · exact (hsi.running hlt').1
    · have := (hsi.ended (Nat.le_of_not_lt hlt')).2.2.1
      omega
  · intro hc
    by_cases hlt' : (w.scheds.getD s default).s.idx < (w.scheds.getD s default).s.tt.length
    · exact (hsi.running hlt').2.2.1 hc
    · have := (hsi.ended (Nat.le_of_not_lt hlt')).2.2.1
      omega

/-- The anchor is the time stamp of the first record. -/
theorem anchor_is_first_record {w0 w : World} {A : Nat → Int} (hs : SD w0) (hr : ReachD w0 A w)
    {s : Nat} (hl : s < w.scheds.length) (hne : (w.scheds.getD s default).s.tt ≠ []) :
    ((transitions w s)[0]?).map (·.1) = some (A s) := by
  obtain ⟨h1, _, h3, _⟩ := records_timetable_prefix_dyn hs hr hl
  have hk := h3 hne
  rw [h1, List.getElem?_map, List.getElem?_range (by omega)]
  simp [C18.T]

/-! ### C18D-3: the transition -/

/-- **C18D-3.**  A step that executes the `.schedUpdate s` event `ev` in a reachable state: `s` exists,
the event is live and due at `A s + T tt K`; the transition `K` is made at `ev.time` (one record,
one `.act` result per registered object, in order) unless the acyclic schedule ends. -/
theorem transition_step_dyn {w0 w w' : World} {A : Nat → Int} {ev : Event} (hs : SD w0)
    (hr : ReachD w0 A w) (hst : w.step = some (ev, w')) {s : Nat} (hev : suEv s ev = true) :
    ev.cancelled = false ∧ s < w.scheds.length ∧
    ev.time = A s + C18.T (w.scheds.getD s default).s.tt (transitions w s).length ∧
    (((w.scheds.getD s default).s.cyc = false ∧
        (transitions w s).length = (w.scheds.getD s default).s.tt.length) →
      transitions w' s = transitions w s ∧ acts w'.results = acts w.results ∧
      (w'.scheds.getD s default).s.idx = (w.scheds.getD s default).s.tt.length) ∧
    (¬ ((w.scheds.getD s default).s.cyc = false ∧
        (transitions w s).length = (w.scheds.getD s default).s.tt.length) →
      transitions w' s = transitions w s ++
        [(ev.time, ttState (w.scheds.getD s default).s.tt (transitions w s).length)] ∧
      acts w'.results = acts w.results ++ (w.scheds.getD s default).s.reg.map (fun p =>
        Res.act s p.1 ev.time (ttState (w.scheds.getD s default).s.tt (transitions w s).length) p.2) ∧
      (w'.scheds.getD s default).s.state =
        some (ttState (w.scheds.getD s default).s.tt (transitions w s).length) ∧
      (w'.scheds.getD s default).s.reg = (w.scheds.getD s default).s.reg) := by
  have hw := wd_reachable hs hr
  obtain ⟨es, he, rfl⟩ := step_cases hst
  have hown := hw.gd.owner (x := ev) (by rw [he]; simp) (suEv_tracked hev)
  have hl : s < w.scheds.length := by
    rcases hown with ⟨s2, h1, h2, _⟩ | ⟨s2, h1, _⟩
    · have := suEv_inj hev h1; subst this; exact h2
    · rw [psEv_not_suEv hev] at h1; cases h1
  have hsi := (hw.gd.sched s).1 hl
  obtain ⟨hmid, hcan, _⟩ := hsi.pop he hev (w.env.terminated || (ev.live && ev.act == terminateAct))
  have hlive : ev.live = true := by simp [Event.live, hcan]
  have hact : ev.act = 9 + 16 * s := by simpa [suEv] using hev
  rw [if_pos hlive, hact, ofNat_su]
  have ha := schedUpdate_refines (noScr ({ w with env := popEnv w.env ev es } : World)) s true
    (hw.gd.sok.dur_at s)
  rw [show (noScr ({ w with env := popEnv w.env ev es } : World)).schedUpdate s true =
    noScr (({ w with env := popEnv w.env ev es } : World).schedUpdate s true) from
    C03W.es_schedUpdate _ [] _ _] at ha
  rw [show ({ w with env := popEnv w.env ev es } : World).exec (Action.schedUpdate s) =
    ({ w with env := popEnv w.env ev es } : World).schedUpdate s true from rfl]
  generalize ({ w with env := popEnv w.env ev es } : World).schedUpdate s true = w2 at ha ⊢
  have hnow : ev.time = A s + C18.T (w.scheds.getD s default).s.tt (transitions w s).length := by
    have := hmid.now
    rw [transitions_noScr] at this
    exact this
  obtain ⟨i1, i2⟩ := ASched.inv_advance ha hl hmid.pos hmid.idx hmid.lt hmid.cyc
  rw [transitions_noScr] at i1 i2
  refine ⟨hcan, hl, hnow, fun hc => ?_, fun hc => ?_⟩
  · obtain ⟨j1, j2, j3⟩ := i1 hc
    have j1' : (tk w2).recsT = (tk w).recsT := j1
    have j2' : (tk w2).resT = (tk w).resT := j2
    refine ⟨?_, ?_, j3⟩
    · rw [← transitions_tk, ← transitions_tk w, j1']
    · rw [← acts_tk, ← acts_tk w, j2']
  · obtain ⟨j1, j2, j3, j4⟩ := i2 hc
    have j1' : (tk w2).recsT = (tk w).recsT ++ _ := j1
    have j2' : (tk w2).resT = (tk w).resT ++ _ := j2
    refine ⟨?_, ?_, j3, j4⟩
    · rw [← transitions_tk, j1', schedLog_append, schedLog_single, transitions_tk]
      rfl
    · rw [← acts_tk, j2', acts_append, acts_act, acts_tk]
      rfl

/-! ### late = early, shifted -/

/-- **Late equals early, shifted.**  Two schedulers with the same timetable — `s` in a state reachable
from `w0`, `s'` in a state reachable from `w0'` (possibly the same world): the `k`-th record of `s`
is the `k`-th record of `s'` shifted by the difference `A s - A' s'` of their anchors (same state),
and if they have made the same number of transitions, the pending event of `s` is due at the time
of the pending event of `s'` plus that difference. -/
theorem late_equals_early_shifted {w0 w w0' w' : World} {A A' : Nat → Int} (hs : SD w0)
    (hr : ReachD w0 A w) (hs' : SD w0') (hr' : ReachD w0' A' w') {s s' : Nat}
    (hl : s < w.scheds.length) (hl' : s' < w'.scheds.length)
    (htt : (w.scheds.getD s default).s.tt = (w'.scheds.getD s' default).s.tt) :
    (∀ k, k < (transitions w s).length → k < (transitions w' s').length →
      (transitions w s)[k]? =
        ((transitions w' s')[k]?).map (fun p => (p.1 + (A s - A' s'), p.2))) ∧
    ((transitions w s).length = (transitions w' s').length →
      ∀ e e', pendingEvents w s = [e] → pendingEvents w' s' = [e'] →
        (w.scheds.getD s default).s.idx < (w.scheds.getD s default).s.tt.length →
        (w'.scheds.getD s' default).s.idx < (w'.scheds.getD s' default).s.tt.length →
        e.time = e'.time + (A s - A' s')) := by
  constructor
  · intro k hk hk'
    have h1 := (records_timetable_prefix_dyn hs hr hl).1
    have h2 := (records_timetable_prefix_dyn hs' hr' hl').1
    rw [h1, h2, List.getElem?_map, List.getElem?_map, List.getElem?_range hk, List.getElem?_range hk', htt]
    simp only [Option.map_some, Option.some.injEq, Prod.mk.injEq, and_true]
    omega
  · intro hK e e' he he' hi hi'
    obtain ⟨x, hx, _, _, ht, _⟩ := (pending_transition_dyn hs hr hl).1 hi
    obtain ⟨x', hx', _, _, ht', _⟩ := (pending_transition_dyn hs' hr' hl').1 hi'
    rw [he] at hx
    rw [he'] at hx'
    have e1 : e = x := by simpa using hx
    have e2 : e' = x' := by simpa using hx'
    rw [e1, e2, ht, ht', htt, hK]
    omega

/-- … in particular for a scheduler constructed at `tc = A s` and the same scheduler present from the
start of another world `w0'`: the shift is `tc - w0'.now`. -/
theorem late_equals_early_shifted_initial {w0 w w0' w' : World} {A A' : Nat → Int} (hs : SD w0)
    (hr : ReachD w0 A w) (hs' : SD w0') (hr' : ReachD w0' A' w') {s s' : Nat}
    (hl : s < w.scheds.length) (hl' : s' < w0'.scheds.length)
    (htt : (w.scheds.getD s default).s.tt = (w'.scheds.getD s' default).s.tt)
    (k : Nat) (hk : k < (transitions w s).length) (hk' : k < (transitions w' s').length) :
    (transitions w s)[k]? =
      ((transitions w' s')[k]?).map (fun p => (p.1 + (A s - w0'.now), p.2)) := by
  obtain ⟨l, a⟩ := anchor_initial hs' hr'
  rw [← a s' hl']
  exact (late_equals_early_shifted hs hr hs' hr' hl (by omega) htt).1 k hk hk'

/-! ### non-vacuity -/

/-- A processor (asset id 1) and a cyclic scheduler (asset id 2, timetable `[(4, 10), (3, 20)]`).
Script 0, run at time 5, constructs a second cyclic scheduler `[(2, 7), (1, 8)]`. -/
def exW : World :=
  { devs := [{ kind := .processor, aid := 1 }]
    scheds := [{ s := { tt := [(4, 10), (3, 20)], cyc := true }, aid := 2 }]
    assets := [.dev 0, .sched 0]
    scripts := [[.create (.sched [(2, 7), (1, 8)] true)]]
    env := { terminated := false, nextUid := 1
             events := [{ uid := 0, time := 5, prio := pOtherLow, weight := 0, asset := -1,
                          act := (Action.script 0).toNat }] } }

theorem sd_exW : SD exW where
  stat := ⟨by decide, by decide, by decide, by decide, by decide, by decide⟩
  fresh := ⟨rfl, ⟨by unfold SortedEv; decide, by decide, by decide, by decide⟩, by decide, by decide,
    by decide, by decide, by decide, by decide⟩
  reg := by decide
  scr := by decide

/-- first run: initialise, run for 12 time units -/
def ex1 : World := runLoop 40 (exW.simulateInit.runBegin 12).1
/-- between two runs a third (acyclic) scheduler is constructed from outside -/
def ex2 : World := ex1.applyOps [.create (.sched [(5, 1), (2, 2)] false)]
/-- second run: 10 more time units -/
def ex3 : World := runLoop 40 (ex2.runBegin 10).1

def exA1 : Nat → Int := runA 40 (fun _ => exW.now) (exW.simulateInit.runBegin 12).1
def exA2 : Nat → Int := ext exA1 ex1
def exA3 : Nat → Int := runA 40 exA2 (ex2.runBegin 10).1

theorem reach_ex1 : ReachD exW exA1 ex1 := .run 40 (.runBegin 12 .init)
theorem reach_ex2 : ReachD exW exA2 ex2 := .ops _ reach_ex1 (by decide)
theorem reach_ex3 : ReachD exW exA3 ex3 := .run 40 (.runBegin 10 reach_ex2)

-- the first run ends at 12 with two schedulers: the initial one anchored at 0, the one constructed by
-- the script anchored at 5 (its records: 5 + T tt k = 5, 7, 8, 10, 11)
example : ex1.now = 12 ∧ ex1.scheds.length = 2 ∧ exA1 0 = 0 ∧ exA1 1 = 5 ∧
    transitions ex1 0 = [(0, 10), (4, 20), (7, 10), (11, 20)] ∧
    transitions ex1 1 = [(5, 7), (7, 8), (8, 7), (10, 8), (11, 7)] ∧
    (pendingEvents ex1 1).map (fun e => (e.time, e.asset, e.cancelled)) = [(13, 3, false)] := by decide

-- the third scheduler, constructed between the runs, is anchored at the end time 12 of the first run
example : ex2.now = 12 ∧ ex2.scheds.length = 3 ∧ exA2 2 = 12 ∧ exA2 1 = 5 ∧
    transitions ex2 2 = [(12, 1)] ∧
    (pendingEvents ex2 2).map (fun e => (e.time, e.asset, e.cancelled)) = [(17, 4, false)] := by decide

-- after the second run (clock 22) the acyclic one has ended (12, 17; last event at 19)
example : ex3.now = 22 ∧ exA3 2 = 12 ∧ transitions ex3 2 = [(12, 1), (17, 2)] ∧
    pendingEvents ex3 2 = [] ∧ (transitions ex3 1).length = 12 := by decide

/-- `pending_transition_dyn` instantiated for the scheduler constructed at 5. -/
example : ∃ e, pendingEvents ex1 1 = [e] ∧ e.cancelled = false ∧ e.time = 13 ∧ e.asset = 3 := by
  obtain ⟨e, h1, _, h3, h4, _, h6, _⟩ :=
    (pending_transition_dyn sd_exW reach_ex1 (s := 1) (by decide)).1 (by decide)
  refine ⟨e, h1, h3, ?_, ?_⟩
  · rw [h4]; decide
  · rw [h6]; decide

/-- `records_timetable_prefix_dyn` for the scheduler constructed between the runs. -/
example : transitions ex3 2 = (List.range 2).map (fun k => ((12 : Int) + C18.T [(5, 1), (2, 2)] k,
    (([(5, 1), (2, 2)] : List (Int × Int)).getD (k % 2) (0, 0)).2)) := by
  have := (records_timetable_prefix_dyn sd_exW reach_ex3 (s := 2) (by decide)).1
  rw [this]
  decide

/-- `late_equals_early_shifted` instantiated: scheduler 1 (constructed at 5) against itself in a later
state is trivial; against scheduler 0 it needs equal timetables — here the third scheduler of `ex3`
against the same scheduler in `ex2`: shift 0. -/
example : (transitions ex3 2)[0]? = ((transitions ex2 2)[0]?).map (fun p => (p.1 + (exA3 2 - exA2 2), p.2)) :=
  (late_equals_early_shifted sd_exW reach_ex3 sd_exW reach_ex2 (s := 2) (s' := 2) (by decide) (by decide)
    (by decide)).1 0 (by decide) (by decide)

/-! #### the payload clause is needed -/

/-- **`schedNew` is needed**: a script constructs a scheduler whose first duration is negative; every
other clause of the class holds.  The request for its next transition lies in the past and is
rejected: the constructed scheduler has no pending event though its schedule has not ended. -/
theorem schedNew_needed :
    let w : World := { exW with scripts := [[.create (.sched [(-1, 7), (1, 8)] true)]] }
    C18W.Static (noScr w) ∧ C18W.Fresh w ∧ C20W.Reg w ∧ schedNew [(-1, 7), (1, 8)] = false ∧
    ((runLoop 2 w.simulateInit).scheds.getD 1 default).s.idx <
      ((runLoop 2 w.simulateInit).scheds.getD 1 default).s.tt.length ∧
    pendingEvents (runLoop 2 w.simulateInit) 1 = [] ∧
    (runLoop 2 w.simulateInit).error = some "sched-past" := by
  refine ⟨⟨by decide, by decide, by decide, by decide, by decide, by decide⟩,
    ⟨rfl, ⟨by unfold SortedEv; decide, by decide, by decide, by decide⟩, by decide, by decide,
      by decide, by decide, by decide, by decide⟩, by decide, by decide, by decide, by decide, by decide⟩

/-- **The bound on paused ids is needed**: a script constructs a scheduler (it receives asset id 3,
one more than the initial registry) and pauses id 3: the transition event is paused. -/
theorem idOK_needed :
    let w : World := { exW with scripts := [[.create (.sched [(2, 7)] true), .pause 3]] }
    C18W.Static (noScr w) ∧ C18W.Fresh w ∧ C20W.Reg w ∧ idOK (tk w).ta w.assets.length 3 = false ∧
    (!(tk w).ta.contains 3) = true ∧
    pendingEvents (runLoop 2 w.simulateInit) 1 = [] ∧
    (pausedEvents (runLoop 2 w.simulateInit) 1).length = 1 := by
  refine ⟨⟨by decide, by decide, by decide, by decide, by decide, by decide⟩,
    ⟨rfl, ⟨by unfold SortedEv; decide, by decide, by decide, by decide⟩, by decide, by decide,
      by decide, by decide, by decide, by decide⟩, by decide, by decide, by decide, by decide, by decide⟩

end C18D
end SimProc
