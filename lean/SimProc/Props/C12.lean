/-
C12 — maintainer: capacity, one order per target, request order, exact durations.

Theorems about `SimProc/Model/Maintainer.lean` for EVERY stream of requests and finishes (the
targets' answers — needed capacity, duration, cost — are arbitrary arguments).
-/
import SimProc.Model.Maintainer
import SimProc.Proofs.C12Lemmas

namespace SimProc
namespace C12

def sumNeeded (l : List Order) : Int := (l.map (·.needed)).foldl (· + ·) 0

private theorem sumNeeded_nil : sumNeeded [] = 0 := rfl

private theorem sumNeeded_cons (o : Order) (l : List Order) :
    sumNeeded (o :: l) = o.needed + sumNeeded l := by
  simp only [sumNeeded, List.map_cons, List.foldl_cons]
  rw [C12L.foldl_add]; omega

private theorem sumNeeded_append (l₁ l₂ : List Order) :
    sumNeeded (l₁ ++ l₂) = sumNeeded l₁ + sumNeeded l₂ := by
  induction l₁ with
  | nil => simp [sumNeeded_nil]
  | cons x xs ih => rw [List.cons_append, sumNeeded_cons, sumNeeded_cons, ih]; omega

private theorem sumNeeded_erase (l : List Order) (o : Order) (h : o ∈ l) :
    sumNeeded (l.erase o) = sumNeeded l - o.needed := by
  induction l with
  | nil => cases h
  | cons x xs ih =>
    by_cases hx : x = o
    · subst hx; rw [List.erase_cons_head, sumNeeded_cons]; omega
    · have ho : o ∈ xs := by
        rcases List.mem_cons.1 h with h | h
        · exact absurd h.symm hx
        · exact h
      rw [List.erase_cons_tail (by simpa using hx), sumNeeded_cons, sumNeeded_cons, ih ho]; omega

private theorem sumNeeded_nonneg (l : List Order) (h : ∀ o ∈ l, 0 ≤ o.needed) :
    0 ≤ sumNeeded l := by
  induction l with
  | nil => simp [sumNeeded_nil]
  | cons x xs ih =>
    rw [sumNeeded_cons]
    have := h x (List.mem_cons_self ..)
    have := ih (fun o ho => h o (List.mem_cons_of_mem _ ho))
    omega

/-- The invariant of the maintainer's bookkeeping. -/
structure Inv (m : Maint) : Prop where
  utilEq : m.util = sumNeeded m.active
  oneTarget : (m.active.map (·.target)).Nodup
  noDup : ((m.queue ++ m.active).map (fun o => (o.target, o.tag))).Nodup
  seqs : ((m.queue ++ m.active).map (·.seq)).Nodup
  fresh : ∀ o ∈ m.queue ++ m.active, o.seq < m.nextSeq
  needNonneg : ∀ o ∈ m.queue ++ m.active, 0 ≤ o.needed

theorem inv_init (cap : Option Int) : Inv { cap := cap } := by
  constructor <;> simp [sumNeeded]

/-- A work order is accepted unless an identical (target, tag) order is queued or in progress, and
`create_work_order` returns exactly that; a rejected request changes nothing. -/
theorem create_returns (m : Maint) (t : Nat) (tag need info : Int) :
    (m.create t tag need info).2.1 = !(m.requested t tag) ∧
    (m.requested t tag = true → (m.create t tag need info).1 = m ∧
      (m.create t tag need info).2.2.1 = none ∧ (m.create t tag need info).2.2.2 = []) := by
  unfold Maint.create
  cases h : m.requested t tag <;> simp

theorem requested_iff (m : Maint) (t : Nat) (tag : Int) :
    m.requested t tag = true ↔ ∃ o ∈ m.queue ++ m.active, o.target = t ∧ o.tag = tag := by
  simp only [Maint.requested, Bool.or_eq_true, List.any_eq_true, Bool.and_eq_true, beq_iff_eq,
    List.mem_append]
  constructor
  · rintro (⟨o, ho, h⟩ | ⟨o, ho, h⟩)
    · exact ⟨o, Or.inl ho, h⟩
    · exact ⟨o, Or.inr ho, h⟩
  · rintro ⟨o, ho | ho, h⟩
    · exact Or.inl ⟨o, ho, h⟩
    · exact Or.inr ⟨o, ho, h⟩

/-! ### the scan -/

/-- What `scanQ` does: the started orders and the kept orders partition the scanned list, both
in request order; the new active list is the old one followed by the started orders; utilisation
grows by what the started orders need. -/
theorem scanQ_spec (m : Maint) (q : List Order) :
    let r := m.scanQ q
    r.2.2.Sublist q ∧ r.2.1.Sublist q ∧ (r.2.2 ++ r.2.1).Perm q ∧
    r.1.active = m.active ++ r.2.2 ∧ r.1.util = m.util + sumNeeded r.2.2 ∧
    r.1.queue = m.queue ∧ r.1.cap = m.cap ∧ r.1.nextSeq = m.nextSeq ∧ r.1.val = m.val := by
  induction q generalizing m with
  | nil => simp [C12L.scanQ_nil, sumNeeded_nil]
  | cons o rest ih =>
    cases hs : m.startable o with
    | true =>
      have := ih { m with active := m.active ++ [o], util := m.util + o.needed }
      simp only at this
      obtain ⟨h1, h2, h3, h4, h5, h6, h7, h8, h9⟩ := this
      rw [C12L.scanQ_cons_start m o rest hs]
      simp only
      refine ⟨h1.cons_cons o, h2.cons o, ?_, ?_, ?_, h6, h7, h8, h9⟩
      · rw [List.cons_append]; exact h3.cons o
      · rw [h4]; simp
      · rw [h5, sumNeeded_cons]; omega
    | false =>
      have := ih m
      simp only at this
      obtain ⟨h1, h2, h3, h4, h5, h6, h7, h8, h9⟩ := this
      rw [C12L.scanQ_cons_keep m o rest hs]
      simp only
      refine ⟨h1.cons o, h2.cons_cons o, ?_, h4, h5, h6, h7, h8, h9⟩
      exact List.perm_middle.trans (h3.cons o)

/-- Orders start in request order, skipping only those that do not fit the remaining capacity or
whose target is already being worked on: every started order was startable in the state reached
by starting the earlier ones, every kept order was not. Stated as a recursive characterisation. -/
def ScanOK : Maint → List Order → List Order → List Order → Prop
  | _, [], kept, st => kept = [] ∧ st = []
  | m, o :: rest, kept, st =>
    if m.startable o then
      ∃ st', st = o :: st' ∧
        ScanOK { m with active := m.active ++ [o], util := m.util + o.needed } rest kept st'
    else ∃ kept', kept = o :: kept' ∧ ScanOK m rest kept' st

theorem scan_order (m : Maint) (q : List Order) :
    ScanOK m q (m.scanQ q).2.1 (m.scanQ q).2.2 := by
  induction q generalizing m with
  | nil => simp [C12L.scanQ_nil, ScanOK]
  | cons o rest ih =>
    cases hs : m.startable o with
    | true =>
      rw [C12L.scanQ_cons_start m o rest hs]
      simp only [ScanOK, hs, if_true]
      exact ⟨_, rfl, ih _⟩
    | false =>
      rw [C12L.scanQ_cons_keep m o rest hs]
      simp only [ScanOK, hs]
      exact ⟨_, rfl, ih _⟩

/-- Generalised form of `nothing_startable_after_scan`, for the scan of any list. -/
private theorem scanQ_kept_unstartable (m : Maint) (q : List Order) (h : ∀ o ∈ q, 0 ≤ o.needed) :
    ∀ o ∈ (m.scanQ q).2.1, (m.scanQ q).1.startable o = false := by
  induction q generalizing m with
  | nil => simp [C12L.scanQ_nil]
  | cons o rest ih =>
    have hrest : ∀ x ∈ rest, 0 ≤ x.needed := fun x hx => h x (List.mem_cons_of_mem _ hx)
    cases hs : m.startable o with
    | true =>
      rw [C12L.scanQ_cons_start m o rest hs]
      exact ih _ hrest
    | false =>
      rw [C12L.scanQ_cons_keep m o rest hs]
      intro x hx
      simp only [List.mem_cons] at hx
      rcases hx with rfl | hx
      · obtain ⟨h1, -, -, h4, h5, -, h7, -, -⟩ := scanQ_spec m rest
        refine C12L.startable_mono m (m.scanQ rest).1 x h7 ?_ ?_ hs
        · have := sumNeeded_nonneg (m.scanQ rest).2.2 (fun y hy => hrest y (h1.subset hy))
          omega
        · intro y hy; rw [h4]; exact List.mem_append_left _ hy
      · exact ih m hrest x hx

/-- After a scan nothing that is still queued can start (needed capacities ≥ 0: during a scan
utilisation and the active set only grow, so an order found unstartable stays unstartable). -/
theorem nothing_startable_after_scan (m : Maint) (h : ∀ o ∈ m.queue, 0 ≤ o.needed) :
    ∀ o ∈ (m.tryWork).1.queue, (m.tryWork).1.startable o = false := by
  intro o ho
  rw [C12L.tryWork_eq] at ho ⊢
  have := scanQ_kept_unstartable m m.queue h o ho
  simpa [Maint.startable, Maint.fits, Maint.targetFree] using this

/-! ### invariant preservation -/

private theorem scanQ_oneTarget (m : Maint) (q : List Order)
    (h : (m.active.map (·.target)).Nodup) : ((m.scanQ q).1.active.map (·.target)).Nodup := by
  induction q generalizing m with
  | nil => simpa [C12L.scanQ_nil] using h
  | cons o rest ih =>
    cases hs : m.startable o with
    | true =>
      rw [C12L.scanQ_cons_start m o rest hs]
      apply ih
      simp only [Maint.startable, Maint.targetFree, Bool.and_eq_true, Bool.not_eq_true',
        List.any_eq_false, beq_iff_eq] at hs
      simp only [List.map_append, List.map_cons, List.map_nil, List.nodup_append, h, true_and,
        List.mem_map, List.mem_singleton, forall_exists_index, and_imp]
      refine ⟨by simp, ?_⟩
      rintro _ x hx rfl _ rfl
      exact hs.2 x hx
    | false =>
      rw [C12L.scanQ_cons_keep m o rest hs]
      exact ih m h

private theorem inv_of_perm (m m' : Maint) (h : Inv m)
    (hu : m'.util = sumNeeded m'.active) (ht : (m'.active.map (·.target)).Nodup)
    (hp : (m'.queue ++ m'.active).Perm (m.queue ++ m.active)) (hs : m'.nextSeq = m.nextSeq) :
    Inv m' where
  utilEq := hu
  oneTarget := ht
  noDup := ((hp.map _).nodup_iff).2 h.noDup
  seqs := ((hp.map _).nodup_iff).2 h.seqs
  fresh := fun o ho => hs ▸ h.fresh o (hp.mem_iff.1 ho)
  needNonneg := fun o ho => h.needNonneg o (hp.mem_iff.1 ho)

theorem inv_tryWork (m : Maint) (h : Inv m) : Inv (m.tryWork).1 := by
  obtain ⟨-, -, h3, h4, h5, -, -, h8, -⟩ := scanQ_spec m m.queue
  rw [C12L.tryWork_eq]
  refine inv_of_perm m _ h ?_ ?_ ?_ h8
  · show (m.scanQ m.queue).1.util = sumNeeded (m.scanQ m.queue).1.active
    rw [h5, h4, sumNeeded_append, h.utilEq]
  · exact scanQ_oneTarget m m.queue h.oneTarget
  · show ((m.scanQ m.queue).2.1 ++ (m.scanQ m.queue).1.active).Perm (m.queue ++ m.active)
    rw [h4]
    have h1 : ((m.scanQ m.queue).2.1 ++ (m.active ++ (m.scanQ m.queue).2.2)).Perm
        (((m.scanQ m.queue).2.2 ++ (m.scanQ m.queue).2.1) ++ m.active) := by
      refine List.perm_append_comm.trans ?_
      rw [List.append_assoc]
      exact List.perm_append_comm
    exact h1.trans (h3.append_right _)

theorem inv_create (m : Maint) (t : Nat) (tag need info : Int) (h : Inv m) (hn : 0 ≤ need) :
    Inv (m.create t tag need info).1 := by
  unfold Maint.create
  cases hr : m.requested t tag with
  | true => simpa using h
  | false =>
    simp only [Bool.false_eq_true, if_false]
    apply inv_tryWork
    have hnr : ∀ o ∈ m.queue ++ m.active, ¬ (o.target = t ∧ o.tag = tag) := by
      intro o ho hc
      have := (requested_iff m t tag).2 ⟨o, ho, hc⟩
      rw [hr] at this; cases this
    have hperm : ∀ o : Order, ((m.queue ++ [o]) ++ m.active).Perm (o :: (m.queue ++ m.active)) := by
      intro o
      rw [List.append_assoc]
      exact List.perm_middle
    refine ⟨h.utilEq, h.oneTarget, ?_, ?_, ?_, ?_⟩
    · refine ((hperm _).map _).nodup_iff.2 ?_
      rw [List.map_cons, List.nodup_cons]
      refine ⟨?_, h.noDup⟩
      simp only [List.mem_map, Prod.mk.injEq, not_exists, not_and]
      intro x hx h1 h2
      exact hnr x hx ⟨h1, h2⟩
    · refine ((hperm _).map _).nodup_iff.2 ?_
      rw [List.map_cons, List.nodup_cons]
      refine ⟨?_, h.seqs⟩
      simp only [List.mem_map, not_exists, not_and]
      intro x hx h1
      have := h.fresh x hx
      omega
    · intro x hx
      rcases List.mem_cons.1 ((hperm _).mem_iff.1 hx) with rfl | hx
      · simp
      · have := h.fresh x hx
        show x.seq < m.nextSeq + 1
        omega
    · intro x hx
      rcases List.mem_cons.1 ((hperm _).mem_iff.1 hx) with rfl | hx
      · exact hn
      · exact h.needNonneg x hx

private theorem inv_erase (m : Maint) (o : Order) (h : Inv m) (ho : o ∈ m.active) :
    Inv { m with util := m.util - o.needed, active := m.active.erase o } := by
  have hsub : (m.queue ++ m.active.erase o).Sublist (m.queue ++ m.active) :=
    (List.Sublist.refl _).append List.erase_sublist
  refine ⟨?_, ?_, ?_, ?_, ?_, ?_⟩
  · show m.util - o.needed = sumNeeded (m.active.erase o)
    rw [sumNeeded_erase _ _ ho, h.utilEq]
  · exact (List.erase_sublist.map _).nodup h.oneTarget
  · exact (hsub.map _).nodup h.noDup
  · exact (hsub.map _).nodup h.seqs
  · exact fun x hx => h.fresh x (hsub.subset hx)
  · exact fun x hx => h.needNonneg x (hsub.subset hx)

theorem inv_finish (m : Maint) (o : Order) (h : Inv m) (ho : o ∈ m.active) : Inv (m.finish o).1 := by
  exact inv_tryWork _ (inv_erase m o h ho)

/-- The capacity in use never exceeds the maintainer's capacity (capacity ≥ 0). -/
def CapOK (m : Maint) : Prop := ∀ c, m.cap = some c → m.util ≤ c

private theorem scanQ_cap (m : Maint) (q : List Order) (h : CapOK m) : CapOK (m.scanQ q).1 := by
  induction q generalizing m with
  | nil => simpa [C12L.scanQ_nil] using h
  | cons o rest ih =>
    cases hs : m.startable o with
    | true =>
      rw [C12L.scanQ_cons_start m o rest hs]
      apply ih
      intro c hc
      have hc' : m.cap = some c := hc
      simp only [Maint.startable, Maint.fits, hc', Bool.and_eq_true, decide_eq_true_eq] at hs
      show m.util + o.needed ≤ c
      omega
    | false =>
      rw [C12L.scanQ_cons_keep m o rest hs]
      exact ih m h

theorem cap_tryWork (m : Maint) (h : CapOK m) : CapOK (m.tryWork).1 := by
  rw [C12L.tryWork_eq]
  exact scanQ_cap m m.queue h

theorem cap_create (m : Maint) (t : Nat) (tag need info : Int) (h : CapOK m) :
    CapOK (m.create t tag need info).1 := by
  unfold Maint.create
  cases hr : m.requested t tag with
  | true => simpa using h
  | false =>
    simp only [Bool.false_eq_true, if_false]
    exact cap_tryWork _ h

theorem cap_finish (m : Maint) (o : Order) (hi : Inv m) (h : CapOK m) (ho : o ∈ m.active) :
    CapOK (m.finish o).1 := by
  apply cap_tryWork
  intro c hc
  have := h c hc
  have := hi.needNonneg o (List.mem_append_right _ ho)
  show m.util - o.needed ≤ c
  omega

/-- No target has two orders in progress (from `Inv.oneTarget`): two active orders on the same
target are the same order. -/
theorem one_per_target (m : Maint) (h : Inv m) (a b : Order) (ha : a ∈ m.active) (hb : b ∈ m.active)
    (ht : a.target = b.target) : a = b := by
  exact C12L.eq_of_nodup_map (·.target) m.active h.oneTarget a b ha hb ht

/-- Finishing and creating always end with a scan, so in every state reached by these operations
no queued order that fits and whose target is free is left waiting. -/
theorem nothing_startable_after_create (m : Maint) (t : Nat) (tag need info : Int) (h : Inv m)
    (hn : 0 ≤ need) (hq : ∀ o ∈ m.queue, m.startable o = false) :
    ∀ o ∈ (m.create t tag need info).1.queue, (m.create t tag need info).1.startable o = false := by
  unfold Maint.create
  cases hr : m.requested t tag with
  | true => simpa using hq
  | false =>
    simp only [Bool.false_eq_true, if_false]
    apply nothing_startable_after_scan
    intro x hx
    rcases List.mem_append.1 hx with hx | hx
    · exact h.needNonneg x (List.mem_append_left _ hx)
    · rw [List.mem_singleton.1 hx]; exact hn

theorem nothing_startable_after_finish (m : Maint) (o : Order) (h : Inv m) (ho : o ∈ m.active) :
    ∀ x ∈ (m.finish o).1.queue, (m.finish o).1.startable x = false := by
  have _ := ho  -- not needed: the scan alone gives the result
  apply nothing_startable_after_scan
  intro x hx
  exact h.needNonneg x (List.mem_append_left _ hx)

/-- The cost is charged exactly once per start: value drops by the cost, one history entry (none
for a zero cost). -/
theorem cost_once (m : Maint) (now cost : Int) :
    (m.startCost now cost).val.value = m.val.value - cost ∧
    (m.startCost now cost).val.hist.length = m.val.hist.length + (if cost = 0 then 0 else 1) ∧
    (m.startCost now cost).queue = m.queue ∧ (m.startCost now cost).active = m.active ∧
    (m.startCost now cost).util = m.util := by
  simp only [Maint.startCost, AssetVal.addCost, AssetVal.addValue]
  by_cases hc : cost = 0
  · subst hc; simp
  · have : ¬ (-cost = 0) := by omega
    simp [hc, this]
    omega

/-! ### non-vacuity -/

def exM : Maint :=
  ((((({ cap := some 2 } : Maint).create 0 0 2 0).1.create 1 0 1 0).1.create 0 0 2 0).1.create 2 0 0 0).1

example :
    (({ cap := some 2 } : Maint).create 0 0 2 0).2.1 = true ∧          -- starts
    ((({ cap := some 2 } : Maint).create 0 0 2 0).1.create 0 0 2 0).2.1 = false ∧  -- duplicate
    exM.util = 2 ∧ exM.queue.map (·.target) = [1] ∧                     -- target 1 does not fit
    exM.active.map (·.target) = [0, 2] := by                             -- target 2 overtakes it
  decide

end C12
end SimProc
