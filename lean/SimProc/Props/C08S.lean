/-
C08S — the idle clock is exact (after the repair of finding F13).

`since` (Python: `_waiting_for_part_since`) is the key by which parallel downstream devices are
sorted when a part is handed over ("idle longest first", C08).  Before the repair
`notify_upstream_of_available_space` started the clock of a BUSY machine whose input was unblocked,
so that the machine was later preferred over a sibling that had really been idle longer.  Here, for
the repaired model (`notifyUp` stamps only when both slots are free) and for every single-slot
device (`isS`: handler, processor, sink) in EVERY state reachable from a fresh world of the class
(`Reachable`: `simulateInit`, then events / runs of the event loop / `runBegin`s / operations issued
from outside; no `rewire`, no `create`):

(a)  `idle_clock_sound`: `since = some t` implies both slots are free and `t ≤ now`;
     `idle_clock_complete` (the converse): an initialised device that is not shut down and has both
     slots free has its clock running; together `idle_clock_iff`.
(b)  per step of the event loop —
     `clock_never_moved`: the clock of every device keeps its start time, or is stopped, or is
     (re)started at the present instant: it is never moved to another time;
     `becomes_free_starts_clock`: a device that held a part (input or output slot) before the step and
     is free after it — initialised, not shut down — has `since = some now`;
     `failure_stops_clock`: the failure of a machine with a part in process empties the slot but
     leaves the machine DOWN with the clock stopped (it is started by the restore:
     `restore_starts_clock`);
     `running_clock_undisturbed`: during a part-flow event (`passPart`, `finishCycle`,
     `releaseIfIdle`, the failure of ANOTHER device, scheduler and sensor events) a machine (handler,
     processor) that is free afterwards was free before, and its running clock is untouched
     (`running_clock_own_pass` for the device's own hand-over event).
     The literal claim "free before and after a step ⇒ `since` unchanged" is FALSE in two ways, kept
     as theorems: `clock_kept_false_sink` (a sink with cycle time 0 accepts a part and is free again
     within one step: the clock is restarted at `now`) and `clock_kept_false_shutdown` (a scripted or
     maintenance shutdown stops the clock of an idle machine).
(c)  `idle_longest_first`: when a device hands a part to direct downstream neighbours that are all
     single-slot devices, every neighbour whose clock was started strictly earlier than the
     receiver's (or is running while the receiver's is not) was really free, was offered the part
     before the receiver and refused it (blocked input, shut down, or no resources).

Static class (`Start`): scripts contain no `rewire` / `create` (`ScriptsOK`), the closed-world
invariant `C01W.Good` (device asset ids ≥ 1, scripts issue only user operations on the queue), the
queue invariant `C01.Inv`, and every single-slot device is as its constructor leaves it (slots free,
clock not running, not initialised).  `C02.Static` is NOT needed: wiring, sink failures, dangling
indices are irrelevant.  Machinery: `SimProc/Proofs/C08S{Defs,Floor,Pass,World,Init}.lean` (the
per-device two-state relation `PD`, `Clk X w (f w)` for every function of the floor and the world).
-/
import SimProc.Proofs.C08SInit
import SimProc.Proofs.StaticWorld
import SimProc.Props.C01W
import SimProc.Props.C08

namespace SimProc
namespace C08S
open World FloorCoreL

/-! ### the class, reachability, the invariant -/

/-- A fresh world of the class. -/
structure Start (w0 : World) : Prop where
  /-- no script re-wires or constructs assets -/
  scripts : ScriptsOK w0
  /-- device asset ids ≥ 1, scripts issue only user operations on the event queue -/
  good : C01W.Good w0
  /-- the event queue is consistent (e.g. empty) -/
  queue : C01.Inv w0.env
  /-- single-slot devices are as constructed -/
  fresh : ∀ d ∈ w0.devs, isS d.kind = true →
    d.part = none ∧ d.output = none ∧ d.since = none ∧ d.inited = false

/-- Operations that may be issued from outside between events. -/
def extOK (o : Op) : Bool := opOK o && C01W.opUser o

/-- **Reachable states**: `System.simulate`'s initialisation of the fresh world, then any number of
events (`Environment.step`, or whole runs of the event loop `runLoop` with any fuel), beginnings of
`Environment.run(d)`, and operations (other than `rewire` / `create`) issued from outside. -/
inductive Reachable (w0 : World) : World → Prop
  | init : Reachable w0 w0.simulateInit
  | step {w w' : World} {e : Event} : Reachable w0 w → w.step = some (e, w') → Reachable w0 w'
  | loop {w : World} (n : Nat) : Reachable w0 w → Reachable w0 (runLoop n w)
  | run {w : World} (d : Int) : Reachable w0 w → Reachable w0 (w.runBegin d).1
  | op {w : World} (o : Op) : Reachable w0 w → extOK o = true → Reachable w0 (w.applyOp o).1

/-- The clock invariant: soundness and completeness at every device. -/
def Inv (w : World) : Prop := ∀ x, Sound w.now (cv (w.dev x)) ∧ Complete (cv (w.dev x))

/-- What is carried along every reachable state. -/
structure J (w : World) : Prop where
  scripts : ScriptsOK w
  good : C01W.Good w
  queue : C01.Inv w.env
  inv : Inv w

theorem Clk.inv {X : Nat → Prop} {w w' : World} (h : Clk X w w') (hi : Inv w) : Inv w' := by
  intro x
  refine ⟨?_, (h.dev x).compl (hi x).2⟩
  rw [h.now]
  exact (h.dev x).sound (hi x).1

/-- The clock only moves forward: the invariant survives the pop of an event. -/
theorem Inv.pop {w : World} (hi : Inv w) (env1 : Env) (hn : w.now ≤ env1.now) :
    Inv ({ w with env := env1 } : World) := by
  intro x
  refine ⟨?_, (hi x).2⟩
  intro hk t ht
  obtain ⟨hf, hle⟩ := (hi x).1 hk t ht
  exact ⟨hf, Int.le_trans hle hn⟩

/-- The initial state. -/
theorem inv_simulateInit {w0 : World} (hs : Start w0) : Inv w0.simulateInit := by
  have hr := InitR_simulateInit w0
  intro x
  have hfresh : isS (w0.dev x).kind = true →
      (w0.dev x).part = none ∧ (w0.dev x).output = none ∧ (w0.dev x).since = none ∧
        (w0.dev x).inited = false := by
    intro hk
    by_cases hx : x < w0.devs.length
    · have : w0.dev x = w0.devs[x] := by simp [World.dev, List.getD_eq_getElem?_getD, hx]
      rw [this] at hk ⊢
      exact hs.fresh _ (List.getElem_mem hx) hk
    · rw [dev_of_length_le (Nat.le_of_not_lt hx)]
      exact ⟨rfl, rfl, rfl, rfl⟩
  obtain ⟨hkind, hcase⟩ := hr.dev x
  have hkind' : (cv (w0.simulateInit.dev x)).kind = (w0.dev x).kind := hkind
  constructor
  · intro hk t ht
    rw [hkind'] at hk
    obtain ⟨hp, ho, hsn, _⟩ := hfresh hk
    rcases hcase hk with he | he
    · rw [he] at ht
      have : (w0.dev x).since = some t := ht
      rw [hsn] at this; cases this
    · rw [he] at ht ⊢
      have ht' : some w0.now = some t := ht
      have hfree : (cv (w0.dev x)).free = true := free_of_slots (by rw [hp, ho]; rfl)
      refine ⟨hfree, ?_⟩
      rw [hr.now]
      cases ht'
      exact Int.le_refl _
  · intro hk hi _ _
    rw [hkind'] at hk
    obtain ⟨_, _, _, hin⟩ := hfresh hk
    rcases hcase hk with he | he
    · rw [he] at hi
      have : (w0.dev x).inited = true := hi
      rw [hin] at this; cases this
    · rw [he]; rfl

theorem j_simulateInit {w0 : World} (hs : Start w0) : J w0.simulateInit := by
  have hv := C01W.Via_simulateInit w0 hs.good
  exact ⟨hs.scripts.of_eq (C02V.scr_simulateInit w0), hv.1, C01W.Refines.inv hv.2 hs.queue,
    inv_simulateInit hs⟩

/-- What a step of the event loop is: the pop (clock forward, devices untouched), then — if the
event is live — its action. -/
theorem step_spec {w w' : World} {e : Event} (h : J w) (hst : w.step = some (e, w')) :
    ∃ env1, w.env.step = some (e, env1) ∧ env1.now = e.time ∧ w.now ≤ env1.now ∧
      J ({ w with env := env1 } : World) ∧
      (e.live = false → w' = { w with env := env1 }) ∧
      (e.live = true → w' = ({ w with env := env1 } : World).exec (Action.ofNat e.act)) := by
  obtain ⟨env1, hs1, _, hdead, hlive⟩ := C01W.step_via hst
  have hc := C01.step_clock h.queue hs1
  exact ⟨env1, hs1, hc.1, hc.2,
    ⟨h.scripts.of_eq rfl, h.good.with_env _, C01.inv_step h.queue hs1, h.inv.pop env1 hc.2⟩,
    hdead, hlive⟩

theorem j_step {w w' : World} {e : Event} (h : J w) (hst : w.step = some (e, w')) : J w' := by
  obtain ⟨env1, _, _, _, h1, hdead, hlive⟩ := step_spec h hst
  cases hl : e.live with
  | false => rw [hdead hl]; exact h1
  | true =>
    rw [hlive hl]
    have hv := C01W.Via_exec ({ w with env := env1 } : World) (Action.ofNat e.act) h1.good
    exact ⟨h1.scripts.of_eq (C02V.scr_exec _ _), hv.1, C01W.Refines.inv hv.2 h1.queue,
      (Clk_exec _ _ h1.scripts).inv h1.inv⟩

theorem j_setErr {w : World} (h : J w) (m : String) : J (w.setErr m) :=
  ⟨h.scripts.of_eq (C02V.scr_setErr w m), h.good.of_EK (C01W.EK_setErr w m),
    by rw [setErr_env]; exact h.queue, (Clk_setErr (X := None_) w m).inv h.inv⟩

theorem j_runLoop (n : Nat) : ∀ {w : World}, J w → J (runLoop n w) := by
  induction n with
  | zero => intro w h; rw [World.runLoop]; exact j_setErr h _
  | succ n ih =>
    intro w h
    rw [World.runLoop]
    split
    · split
      · exact h
      · next hst => exact ih (j_step h hst)
    · exact h

theorem j_runBegin {w : World} (h : J w) (d : Int) : J (w.runBegin d).1 := by
  have he := (C01W.runBegin_env w d).1
  have hd : (w.runBegin d).1.devs = w.devs := by
    unfold World.runBegin; dsimp only; split <;> rfl
  have hsc : (w.runBegin d).1.scripts = w.scripts := by
    unfold World.runBegin; dsimp only; split <;> rfl
  have hn : (w.runBegin d).1.now = w.now := by
    show (w.runBegin d).1.env.now = w.env.now
    rw [he]
    exact C01.now_apply_ne_step _ _ _ (by intro h; cases h)
  refine ⟨h.scripts.of_eq hsc, C01W.runBegin_good w d h.good, ?_, ?_⟩
  · rw [he]; exact C01.inv_apply _ _ h.queue
  · exact (Clk.of_devs (X := None_) hn hd).inv h.inv

theorem j_applyOp {w : World} (h : J w) (o : Op) (ho : extOK o = true) : J (w.applyOp o).1 := by
  unfold extOK at ho
  simp only [Bool.and_eq_true] at ho
  have hv := C01W.Via_applyOp w o ho.2 h.good
  exact ⟨h.scripts.of_eq (C02V.scr_applyOp w o), hv.1, C01W.Refines.inv hv.2 h.queue,
    (Clk_applyOp w o ho.1).inv h.inv⟩

theorem j_reachable {w0 w : World} (hs : Start w0) (hr : Reachable w0 w) : J w := by
  induction hr with
  | init => exact j_simulateInit hs
  | step _ hst ih => exact j_step ih hst
  | loop n _ ih => exact j_runLoop n ih
  | run d _ ih => exact j_runBegin ih d
  | op o _ ho ih => exact j_applyOp ih o ho

/-! ## (a) the clock runs exactly while the device is free -/

/-- **(a) Soundness.**  In every reachable state: if the idle clock of a single-slot device shows
`t`, both of its slots are free and `t` is not in the future. -/
theorem idle_clock_sound {w0 w : World} (hs : Start w0) (hr : Reachable w0 w) (x : Nat)
    (hk : isS (w.dev x).kind = true) {t : Int} (ht : (w.dev x).since = some t) :
    (w.dev x).part = none ∧ (w.dev x).output = none ∧ t ≤ w.now := by
  obtain ⟨hf, hle⟩ := ((j_reachable hs hr).inv x).1 hk t ht
  obtain ⟨hp, ho⟩ := slots_of_free hk hf
  exact ⟨hp, ho, hle⟩

/-- **(a) Completeness.**  In every reachable state: an initialised single-slot device that is not
shut down and has both slots free has its idle clock running. -/
theorem idle_clock_complete {w0 w : World} (hs : Start w0) (hr : Reachable w0 w) (x : Nat)
    (hk : isS (w.dev x).kind = true) (hi : (w.dev x).inited = true)
    (hsd : (w.dev x).shutDown = false) (hp : (w.dev x).part = none) (ho : (w.dev x).output = none) :
    (w.dev x).since.isSome = true :=
  ((j_reachable hs hr).inv x).2 hk hi hsd (free_of_slots (by rw [hp, ho]; rfl))

/-- The clock of an initialised device that is not shut down runs iff both slots are free. -/
theorem idle_clock_iff {w0 w : World} (hs : Start w0) (hr : Reachable w0 w) (x : Nat)
    (hk : isS (w.dev x).kind = true) (hi : (w.dev x).inited = true)
    (hsd : (w.dev x).shutDown = false) :
    (w.dev x).since.isSome = true ↔ ((w.dev x).part = none ∧ (w.dev x).output = none) := by
  constructor
  · intro h
    cases hsn : (w.dev x).since with
    | none => rw [hsn] at h; cases h
    | some t => exact ⟨(idle_clock_sound hs hr x hk hsn).1, (idle_clock_sound hs hr x hk hsn).2.1⟩
  · intro h
    exact idle_clock_complete hs hr x hk hi hsd h.1 h.2

/-! ## (b) one step of the event loop -/

/-- The two-state relation of one step: the pop, then `Clk` for the action of a live event. -/
theorem step_clk {w w' : World} {e : Event} (h : J w) (hst : w.step = some (e, w')) :
    ∃ w1 : World, w1.devs = w.devs ∧ w.now ≤ w1.now ∧ w1.now = e.time ∧ J w1 ∧
      (e.live = false → w' = w1) ∧
      (e.live = true → w' = w1.exec (Action.ofNat e.act) ∧
        Clk (exempt (Action.ofNat e.act)) w1 w') := by
  obtain ⟨env1, _, hn, hle, h1, hdead, hlive⟩ := step_spec h hst
  refine ⟨({ w with env := env1 } : World), rfl, hle, hn, h1, hdead, fun hl => ⟨hlive hl, ?_⟩⟩
  rw [hlive hl]
  exact Clk_exec _ _ h1.scripts

/-- **(b) A clock is never moved.**  Over one step of the event loop the idle clock of EVERY device
(of any kind) keeps its start time, or is stopped, or is (re)started at the present instant. -/
theorem clock_never_moved {w0 w w' : World} {e : Event} (hs : Start w0) (hr : Reachable w0 w)
    (hst : w.step = some (e, w')) (y : Nat) :
    (w'.dev y).since = (w.dev y).since ∨ (w'.dev y).since = none ∨
      (w'.dev y).since = some w'.now := by
  obtain ⟨w1, hd, _, _, _, hdead, hlive⟩ := step_clk (j_reachable hs hr) hst
  have hdev : w1.dev y = w.dev y := dev_congr hd y
  cases hl : e.live with
  | false => rw [hdead hl, hdev]; exact Or.inl rfl
  | true =>
    obtain ⟨_, hc⟩ := hlive hl
    have := (hc.dev y).b0
    rw [hdev, ← hc.now] at this
    exact this

/-- **(b) Becoming free starts the clock.**  A single-slot device that holds a part (in its input
or its output slot) before a step and has both slots free after it — initialised and not shut
down — has its clock started at the present instant. -/
theorem becomes_free_starts_clock {w0 w w' : World} {e : Event} (hs : Start w0)
    (hr : Reachable w0 w) (hst : w.step = some (e, w')) (x : Nat)
    (hk : isS (w.dev x).kind = true)
    (hbusy : ¬ ((w.dev x).part = none ∧ (w.dev x).output = none))
    (hp : (w'.dev x).part = none) (ho : (w'.dev x).output = none)
    (hi : (w'.dev x).inited = true) (hsd : (w'.dev x).shutDown = false) :
    (w'.dev x).since = some w'.now := by
  have hr' : Reachable w0 w' := .step hr hst
  have hj' := j_reachable hs hr'
  have hk' : isS (w'.dev x).kind = true := by
    obtain ⟨w1, hd, _, _, _, hdead, hlive⟩ := step_clk (j_reachable hs hr) hst
    cases hl : e.live with
    | false => rw [hdead hl, dev_congr hd x]; exact hk
    | true => rw [(hlive hl).2.kind x, dev_congr hd x]; exact hk
  have hsome := idle_clock_complete hs hr' x hk' hi hsd hp ho
  have hnone : (w.dev x).since = none := by
    cases hsn : (w.dev x).since with
    | none => rfl
    | some t =>
      have := idle_clock_sound hs hr x hk hsn
      exact absurd ⟨this.1, this.2.1⟩ hbusy
  rcases clock_never_moved hs hr hst x with h | h | h
  · rw [h, hnone] at hsome; cases hsome
  · rw [h] at hsome; cases hsome
  · exact h

/-- **(b) A failure stops the clock.**  When the failure event of a single-slot machine with a part
in process is executed, the part is gone, the machine is shut down and its idle clock does NOT
run (it is started by the restore, see `restore_starts_clock`). -/
theorem failure_stops_clock {w0 w w' : World} {e : Event} (hs : Start w0) (hr : Reachable w0 w)
    (hst : w.step = some (e, w')) (x p : Nat) (hl : e.live = true)
    (ha : Action.ofNat e.act = .fail x) (hk : isS (w.dev x).kind = true)
    (hp : (w.dev x).part = some p) :
    (w'.dev x).part = none ∧ (w'.dev x).since = none ∧ (w'.dev x).shutDown = true := by
  obtain ⟨w1, hd, _, _, h1, _, hlive⟩ := step_clk (j_reachable hs hr) hst
  have hdev : w1.dev x = w.dev x := dev_congr hd x
  have hsn : (w1.dev x).since = none := by
    rw [hdev]
    cases hsn : (w.dev x).since with
    | none => rfl
    | some t =>
      have := idle_clock_sound hs hr x hk hsn
      rw [hp] at this; cases this.1
  have hx : x < w1.devs.length := by
    rw [hd]
    apply Nat.lt_of_not_le
    intro hge
    rw [dev_of_length_le hge] at hp
    cases hp
  have hw' : w' = w1.failDev x := by rw [(hlive hl).1, ha]; rfl
  rw [hw', failDev_eq_c13]
  generalize hW : ({ w1 with lost := w1.lost ++ w1.lostLeaves x } : World) = W
  have hWd : W.dev x = w1.dev x := by rw [← hW]; rfl
  have hWl : W.devs.length = w1.devs.length := by rw [← hW]
  have h2 : (W.failPre x (w1.dev x).part).dev x = { w1.dev x with part := none, reserved := none } := by
    rw [failPre_dev_same, hWd]
  have hl2 : x < (W.failPre x (w1.dev x).part).devs.length := by
    rw [failPre_devs_length, hWl]; exact hx
  generalize W.failPre x (w1.dev x).part = W2 at h2 hl2
  cases hs2 : (W2.dev x).shutDown with
  | true =>
    rw [shutdownDev_eq_down W2 x true _ hs2]
    have : ∀ W3 : World, W3.devs = W2.devs →
        (W3.dev x).part = none ∧ (W3.dev x).since = none ∧ (W3.dev x).shutDown = true := by
      intro W3 h3
      rw [dev_congr h3 x]
      refine ⟨by rw [h2], by rw [h2]; exact hsn, hs2⟩
    split
    · exact this _ rfl
    · exact this _ rfl
  | false =>
    rw [shutdownDev_eq_up W2 true _ hl2 hs2]
    have hd3 : ∀ W3 : World, W3.devs = (W2.setDev x (shutDev W2.now (W2.dev x))).devs →
        (W3.dev x).part = none ∧ (W3.dev x).since = none ∧ (W3.dev x).shutDown = true := by
      intro W3 h3
      rw [dev_congr h3 x, dev_setDev_same hl2, h2]
      exact ⟨rfl, rfl, rfl⟩
    exact hd3 _ rfl

/-- … and the restore of a machine whose slots are free starts it (function level). -/
theorem restore_starts_clock (w : World) (x : Nat) (hk : isS (w.dev x).kind = true)
    (hi : (w.dev x).inited = true) (hsd : (w.dev x).shutDown = true)
    (hp : (w.dev x).part = none) (ho : (w.dev x).output = none) (hsn : (w.dev x).since = none) :
    ((w.restoreDev x).dev x).since = some w.now ∧ ((w.restoreDev x).dev x).shutDown = false := by
  have hx := lt_of_shutDown hsd
  rw [restoreDev_eq_down w x hsd]
  dsimp only
  have hd1 : (w.restorePre x).dev x = { w.dev x with shutDown := false, lastRestore := some w.now } := by
    unfold restorePre; rw [dev_envOp, dev_setDev_same hx]
  have hflow : (w.restorePre x).restoreFlow x = (w.restorePre x).notify x := by
    unfold restoreFlow
    simp [hd1, hp, ho]
  rw [hflow]
  generalize hW1 : w.restorePre x = W1 at *
  have hS := Stamp_notify W1 x
  have hk1 : isS (W1.dev x).kind = true := by rw [hd1]; exact hk
  have hsome := notify_since W1 x hk1 (by rw [hd1]; exact hi) (by rw [hd1]; exact hp)
    (by rw [hd1]; exact ho)
  have hnow1 : W1.now = w.now := by rw [← hW1]; rfl
  -- the notification leaves everything but the stamp
  have hdev : ((W1.notify x).dev x).since = some w.now ∧ ((W1.notify x).dev x).shutDown = false ∧
      ((W1.notify x).dev x).part = none := by
    rcases hS.dev x with he | ⟨_, _, he⟩
    · have h1 := congrArg CV.since he
      have h1' : ((W1.notify x).dev x).since = (W1.dev x).since := h1
      rw [h1', hd1] at hsome
      have : (w.dev x).since.isSome = true := hsome
      rw [hsn] at this; cases this
    · have h1 : ((W1.notify x).dev x).since = some W1.now := congrArg CV.since he
      have h2 : ((W1.notify x).dev x).shutDown = (W1.dev x).shutDown := congrArg CV.shutDown he
      have h3 : (cv ((W1.notify x).dev x)).part = (cv (W1.dev x)).part := by
        have := congrArg CV.part he
        exact this
      have hk2 : isS ((W1.notify x).dev x).kind = true := by
        have : ((W1.notify x).dev x).kind = (W1.dev x).kind := congrArg CV.kind he
        rw [this]; exact hk1
      rw [cv_part hk2, cv_part hk1] at h3
      refine ⟨by rw [h1, hnow1], by rw [h2, hd1], by rw [h3, hd1]; exact hp⟩
  have hfin : ∀ W3 : World, W3.devs = (W1.notify x).devs →
      (W3.dev x).since = some w.now ∧ (W3.dev x).shutDown = false := by
    intro W3 h3
    rw [dev_congr h3 x]
    exact ⟨hdev.1, hdev.2.1⟩
  rw [if_neg (by rw [hdev.2.2]; simp)]
  exact hfin _ rfl

/-- **(b) A running clock is not disturbed by part-flow events.**  Let the step execute a
`passPart` / `finishCycle` / `releaseIfIdle` / failure event of ANOTHER device, or a scheduler or
sensor event (`exempt` is false; or the popped event is cancelled).  A machine (handler or processor)
that is free after the step was free before it, and if its clock was running it still shows the
same start time. -/
theorem running_clock_undisturbed {w0 w w' : World} {e : Event} (hs : Start w0)
    (hr : Reachable w0 w) (hst : w.step = some (e, w')) (y : Nat)
    (hm : isM (w.dev y).kind = true)
    (hex : e.live = true → ¬ exempt (Action.ofNat e.act) y)
    (hp : (w'.dev y).part = none) (ho : (w'.dev y).output = none) :
    ((w.dev y).part = none ∧ (w.dev y).output = none) ∧
      ∀ t, (w.dev y).since = some t → (w'.dev y).since = some t := by
  obtain ⟨w1, hd, _, _, _, hdead, hlive⟩ := step_clk (j_reachable hs hr) hst
  have hdev : w1.dev y = w.dev y := dev_congr hd y
  cases hl : e.live with
  | false =>
    rw [hdead hl, hdev] at hp ho
    rw [hdead hl, hdev]
    exact ⟨⟨hp, ho⟩, fun t ht => ht⟩
  | true =>
    obtain ⟨_, hc⟩ := hlive hl
    have hk : isS (w.dev y).kind = true := isS_of_isM hm
    have hfree' : (cv (w'.dev y)).free = true := free_of_slots (by rw [hp, ho]; rfl)
    have := (hc.dev y).keep (hex hl) (by rw [hdev]; exact hm) hfree'
    rw [hdev] at this
    exact ⟨slots_of_free hk this.1, this.2⟩

/-- The hand-over event of a machine whose output slot is empty does nothing. -/
theorem passPart_idle (w : World) (y : Nat) (hm : isM (w.dev y).kind = true)
    (ho : (w.dev y).output = none) : w.passPart y = w := by
  unfold World.passPart
  cases hk : (w.dev y).kind <;> rw [hk] at hm <;> first | cases hm | skip
  all_goals
    simp only [hk]
    unfold World.passHandler
    simp [ho]

/-- … the device's own hand-over event included: an idle machine's own `passPart` event changes
nothing. -/
theorem running_clock_own_pass {w0 w w' : World} {e : Event} (hs : Start w0)
    (hr : Reachable w0 w) (hst : w.step = some (e, w')) (y : Nat)
    (hm : isM (w.dev y).kind = true) (hl : e.live = true)
    (ha : Action.ofNat e.act = .passPart y) (ho : (w.dev y).output = none) :
    w'.devs = w.devs := by
  obtain ⟨w1, hd, _, _, _, _, hlive⟩ := step_clk (j_reachable hs hr) hst
  rw [(hlive hl).1, ha]
  show (w1.passPart y).devs = w.devs
  rw [passPart_idle w1 y (by rw [dev_congr hd y]; exact hm) (by rw [dev_congr hd y]; exact ho)]
  exact hd

/-! ## (c) the consequence for routing -/

theorem isHandlerLike_of_isS {k : Kind} (h : isS k = true) : isHandlerLike k = true := by
  cases k <;> first | rfl | cases h

/-- **(c) Idle longest first, with exact clocks.**  A device `x` hands part `p` over
(`_pass_part_downstream`: the offer round over the sorted downstream list succeeds), all its direct
downstream neighbours being single-slot devices.  Then the receiver `y` is one of them, and every
neighbour `z` whose idle clock was started strictly earlier than the receiver's (or runs while the
receiver's does not) — which by (a) really had both slots free since then — was offered the part
before `y`, in a state that differs from `w` by refusals only, and refused it. -/
theorem idle_longest_first {w0 w : World} (hs : Start w0) (hr : Reachable w0 w) (x p : Nat)
    (hdown : ∀ z ∈ (w.dev x).down, isS (w.dev z).kind = true) {w' : World}
    (h : tryList givePart w (w.sortedDown x) p = (w', true)) :
    ∃ y wm, y ∈ (w.dev x).down ∧ givePart wm y p = (w', true) ∧
      (∀ d, (wm.dev d).noWR = (w.dev d).noWR) ∧
      ∀ z ∈ (w.dev x).down, ∀ tz, (w.dev z).since = some tz →
        ((w.dev y).since = none ∨ ∃ ty, (w.dev y).since = some ty ∧ tz < ty) →
        ((w.dev z).part = none ∧ (w.dev z).output = none ∧ tz ≤ w.now) ∧
        ∃ wa wb, (∀ d, (wa.dev d).noWR = (w.dev d).noWR) ∧ givePart wa z p = (wb, false) := by
  obtain ⟨y, wm, hy, _, hwm, hg, hz⟩ := C08.idle_longest_receives w w' x p h
  refine ⟨y, wm, hy, hg, hwm, ?_⟩
  intro z hzd tz htz hlt
  refine ⟨idle_clock_sound hs hr z (hdown z hzd) htz, ?_⟩
  have hky : C08.idleKey w y = (w.dev y).since :=
    C08.idleKey_handlerLike w y (isHandlerLike_of_isS (hdown y hy))
  have hkz : C08.idleKey w z = (w.dev z).since :=
    C08.idleKey_handlerLike w z (isHandlerLike_of_isS (hdown z hzd))
  have hkey : keyLe (C08.idleKey w y) (C08.idleKey w z) = false := by
    rw [hky, hkz, htz]
    rcases hlt with hn | ⟨ty, hty, hlt⟩
    · rw [hn]; rfl
    · rw [hty, C08L.keyLe_some_some]
      simp; omega
  obtain ⟨wa, wb, _, hwa, hgz⟩ := hz z hzd hkey
  exact ⟨wa, wb, hwa, hgz⟩

/-! ## the literal form of (b) is false -/

/-- `n` steps of the event loop. -/
def stepN : Nat → World → World
  | 0, w => w
  | n + 1, w =>
    match w.step with
    | none => w
    | some (_, w') => stepN n w'

theorem step_get {w : World} (h : w.step.isSome = true) :
    w.step = some ((w.step.get h).1, (w.step.get h).2) := (Option.some_get h).symm

instance (a : Action) (y : Nat) : Decidable (exempt a y) := by
  cases a <;> unfold exempt <;> infer_instance

theorem reachable_stepN {w0 : World} (n : Nat) : ∀ {w : World}, Reachable w0 w →
    Reachable w0 (stepN n w) := by
  induction n with
  | zero => intro w h; exact h
  | succ n ih =>
    intro w h
    rw [stepN]
    split
    · exact h
    · next hst => exact ih (.step h hst)

/-- Two parallel machines between a source (budget 2, later raised) and a sink with cycle time 0:
source 0 → { machine 1 (cycle 5), machine 2 (cycle 2) } → sink 3. -/
def exPar : World :=
  { devs := [{ kind := .source, aid := 1, down := [1, 2], cycle := 1, maxParts := some 2 },
             { kind := .handler, aid := 2, up := [0], down := [3], cycle := 5 },
             { kind := .handler, aid := 3, up := [0], down := [3], cycle := 2 },
             { kind := .sink, aid := 4, up := [1, 2] }],
    assets := [.dev 0, .dev 1, .dev 2, .dev 3] }

theorem start_exPar : Start exPar where
  scripts := by decide
  good := by decide
  queue := C01.inv_init
  fresh := by decide

/-- initialised, `run(100)` begun -/
def par0 : World := (exPar.simulateInit.runBegin 100).1
theorem reach_par0 : Reachable exPar par0 := .run 100 .init

/-- t = 4, machine 2 has finished its part and is about to hand it to the sink -/
def par7 : World := stepN 7 par0
theorem reach_par7 : Reachable exPar par7 := reachable_stepN 7 reach_par0

/-- **The literal claim "free before and after a step ⇒ `since` unchanged" is false (1).**  The
sink (cycle time 0) is free with its clock at 0 before the step in which machine 2 hands over its
part; it accepts the part, finishes it and is free again within that step: the clock is restarted
at the present instant 4.  (`clock_never_moved` is the true general statement.) -/
theorem clock_kept_false_sink :
    ∃ w w' e, Reachable exPar w ∧ w.step = some (e, w') ∧
      ((w.dev 3).part = none ∧ (w.dev 3).output = none ∧ (w.dev 3).since = some 0) ∧
      ((w'.dev 3).part = none ∧ (w'.dev 3).output = none ∧ (w'.dev 3).since = some 4 ∧ w'.now = 4) :=
  ⟨par7, (par7.step.get (by decide)).2, (par7.step.get (by decide)).1, reach_par7,
    step_get (by decide), by decide, by decide⟩

/-- An idle processor and a script that shuts it down. -/
def exShut : World :=
  { devs := [{ kind := .processor, aid := 1 }], assets := [.dev 0], scripts := [[.shutdown 0]] }

theorem start_exShut : Start exShut where
  scripts := by decide
  good := by decide
  queue := C01.inv_init
  fresh := by decide

/-- initialised; the script is scheduled for t = 2 from outside; `run(100)` begun -/
def shut0 : World := ((exShut.simulateInit.applyOp (.sched 2 7 0 10)).1.runBegin 100).1
theorem reach_shut0 : Reachable exShut shut0 := .run 100 (.op _ .init (by decide))

/-- **The literal claim is false (2).**  A scripted (or maintenance) shutdown stops the clock of an
idle machine: free before and after the step, `since` goes from `some 0` to `none` (the machine is
down; `restore_starts_clock` says what the restore does). -/
theorem clock_kept_false_shutdown :
    ∃ w w' e, Reachable exShut w ∧ w.step = some (e, w') ∧
      ((w.dev 0).part = none ∧ (w.dev 0).output = none ∧ (w.dev 0).since = some 0) ∧
      ((w'.dev 0).part = none ∧ (w'.dev 0).output = none ∧ (w'.dev 0).since = none ∧
        (w'.dev 0).shutDown = true) :=
  ⟨shut0, (shut0.step.get (by decide)).2, (shut0.step.get (by decide)).1, reach_shut0,
    step_get (by decide), by decide, by decide⟩

/-! ### non-vacuity -/

/-- t = 3: machine 1 works on part 0 (until 6), machine 2 on part 1 (until 4), the source holds
part 2 with its budget exhausted -/
def par6 : World := stepN 6 par0
/-- … the input of the BUSY machine 1 is blocked and unblocked again from outside -/
def par6b : World := ((par6.applyOp (.block 1 true)).1.applyOp (.block 1 false)).1
/-- t = 6: both machines have delivered their parts -/
def par10 : World := stepN 4 par6b
/-- … the budget of the source is raised by one from outside, the hand-over event executed -/
def par11 : World := stepN 1 (par10.applyOp (.adjust 0 1)).1

theorem reach_par6b : Reachable exPar par6b :=
  .op _ (.op _ (reachable_stepN 6 reach_par0) (by decide)) (by decide)
theorem reach_par10 : Reachable exPar par10 := reachable_stepN 4 reach_par6b
theorem reach_par11 : Reachable exPar par11 := reachable_stepN 1 (.op _ reach_par10 (by decide))

/-- The unblock of the busy machine 1 does NOT start its idle clock (before the repair of F13 the
clock would have been started at 3 while part 0 was in process — a violation of (a)). -/
example : par6b.now = 3 ∧ (par6b.dev 1).part = some 0 ∧ (par6b.dev 1).since = none := by decide

/-- What the unconditional `_set_waiting_for_part(True)` of the OLD
`notify_upstream_of_available_space` did in that situation: it started the clock of the busy
machine — a state in which (a) is false (`since = some 3` while part 0 is in process). -/
example : ((par6.setWaiting 1 true false).dev 1).since = some 3 ∧
    ((par6.setWaiting 1 true false).dev 1).part = some 0 ∧
    ¬ Sound (par6.setWaiting 1 true false).now (cv ((par6.setWaiting 1 true false).dev 1)) := by
  decide

/-- At t = 6 machine 2 has been idle since 4, machine 1 since 6 (before the repair its clock would
have shown the stale 3): machine 2 is offered the next part first … -/
example : par10.now = 6 ∧ (par10.dev 1).since = some 6 ∧ (par10.dev 2).since = some 4 ∧
    par10.sortedDown 0 = [2, 1] := by decide

/-- … and gets it: the part goes to the machine that has really been idle longer. -/
example : (par11.dev 2).part = some 2 ∧ (par11.dev 1).part = none ∧
    (par11.dev 1).since = some 6 := by decide

/-- (a) instantiated: the clock of machine 2 at t = 6. -/
example : (par10.dev 2).part = none ∧ (par10.dev 2).output = none ∧ (4 : Int) ≤ par10.now :=
  idle_clock_sound start_exPar reach_par10 2 (by decide) (t := 4) (by decide)

/-- (a), converse, instantiated: machine 1 at t = 6 (initialised, up, free). -/
example : (par10.dev 1).since.isSome = true :=
  idle_clock_complete start_exPar reach_par10 1 (by decide) (by decide) (by decide) (by decide)
    (by decide)

/-- (b) instantiated: the step in which machine 1 hands its part to the sink (t = 6). -/
def par9 : World := stepN 3 par6b
theorem reach_par9 : Reachable exPar par9 := reachable_stepN 3 reach_par6b

example : (par9.dev 1).output = some 0 ∧
    ((par9.step.get (by decide)).2.dev 1).since = some 6 :=
  ⟨by decide, becomes_free_starts_clock start_exPar reach_par9
    (step_get (by decide)) 1 (by decide) (by decide)
    (by decide) (by decide) (by decide) (by decide)⟩

/-- `running_clock_undisturbed` instantiated: the same step does not touch the running clock of
machine 2 (started at 4). -/
example : ((par9.step.get (by decide)).2.dev 2).since = some 4 :=
  (running_clock_undisturbed start_exPar reach_par9
    (step_get (by decide)) 2 (by decide) (by decide)
    (by decide) (by decide)).2 4 (by decide)

/-- (c) instantiated: the hand-over of part 2 at t = 6; the hypotheses hold, the receiver is
machine 2. -/
example : (∀ z ∈ (par10.dev 0).down, isS (par10.dev z).kind = true) ∧
    (tryList givePart (par10.applyOp (.adjust 0 1)).1
      ((par10.applyOp (.adjust 0 1)).1.sortedDown 0) 2).2 = true := by decide

/-- A processor that fails with a part in process and is restored later: source 0 → processor 1
(cycle 5) → sink 2; the failure is scheduled for t = 3 from outside. -/
def exFail : World :=
  { devs := [{ kind := .source, aid := 1, down := [1], cycle := 1, maxParts := some 1 },
             { kind := .processor, aid := 2, up := [0], down := [2], cycle := 5 },
             { kind := .sink, aid := 3, up := [1] }],
    assets := [.dev 0, .dev 1, .dev 2] }

theorem start_exFail : Start exFail where
  scripts := by decide
  good := by decide
  queue := C01.inv_init
  fresh := by decide

def fail0 : World := ((exFail.simulateInit.applyOp (.schedFail 1 3)).1.runBegin 100).1
theorem reach_fail0 : Reachable exFail fail0 := .run 100 (.op _ .init (by decide))
/-- t = 2: the processor works on part 0; the next event is the failure -/
def fail2 : World := stepN 4 fail0
theorem reach_fail2 : Reachable exFail fail2 := reachable_stepN 4 reach_fail0

/-- `failure_stops_clock` instantiated: hypotheses hold, and the conclusion. -/
example : (fail2.dev 1).part = some 0 ∧
    ((fail2.step.get (by decide)).2.dev 1).part = none ∧
    ((fail2.step.get (by decide)).2.dev 1).since = none ∧
    ((fail2.step.get (by decide)).2.dev 1).shutDown = true :=
  ⟨by decide, failure_stops_clock start_exFail reach_fail2
    (step_get (by decide)) 1 0 (by decide) (by decide)
    (by decide) (by decide)⟩

/-- … and the restore (from outside, at t = 3) starts the clock. -/
def fail3r : World := ((fail2.step.get (by decide)).2.applyOp (.restore 1)).1
example : fail3r.now = 3 ∧ (fail3r.dev 1).since = some 3 ∧ (fail3r.dev 1).shutDown = false := by decide

end C08S
end SimProc
