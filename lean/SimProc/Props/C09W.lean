/-
C09W — C09 ("resource pools: usage equals the sum of all outstanding reservations' holdings;
reserve is atomic; release gives back exactly what was held; errors change nothing; capacity and
usage never negative; merge moves holdings without changing usage") AT WORLD LEVEL, in the closed
world that ALLOWS OPERATIONS FROM OUTSIDE and scripted operations on the manager.

`Props/C09.lean` proves the pool invariant `C09.Inv` for operation lists on the bare manager;
`Props/C11W.lean` lifts it to the world for a class WITHOUT outside operations and without
scripted `reserve / release / merge`; `Props/C10W.lean` has the larger class (`Cls`, `Fresh`,
`Reachable` with outside operations) but not the pool invariant.  Here:

**The static clause** `ReqWF` (decidable; `Proofs/C09WBase.lean`): every scripted operation is
well-formed (`opWF`: the request of a `reserve`, the part named by a partial `release`, the request
declared by a constructed processor have DISTINCT KEYS — they are Python dicts) and every declared
processor request has distinct keys.  Nothing is asked of the amounts (zero, negative, unknown
resources stay allowed: the manager rejects or ignores them), nothing of `register`, `merge`,
`addRes`.  `nodup_needed`: the clause is needed.

**The initial pools** `C09.Inv w0.rm` (decidable here: `InvD`, `invD_iff`); `C10W.Fresh` says nothing
about the pools (`fresh_not_enough`); `inv_of_fresh_pools`: pools with distinct keys, capacities
≥ 0, usage 0 and no reservations satisfy it.

**Reachable states**: `ReachableW` = `C10W.Reachable` with outside operations restricted to
`opWF` (`ReachableW.reachable`); `ReachableB` = outside operations BEFORE `simulateInit` (finding F9),
then `simulateInit`, then the constructors of `ReachableW`; `Reach` = the common generalisation
(start anywhere, `simulateInit` / events / runs / ANY well-formed operation in any order — `opC`
is not needed for the pool invariant, nor are `C10W.Cls` and `C10W.Fresh`).

What is proved (nothing `_partial`):
1. `rmInv_reachable` (`ReachableW`), `before_init` (`ReachableB`), `rmInv_reach` (`Reach`):
   `C09.Inv w.rm` in every reachable world; `reqWF_reachable`: the static clause is preserved;
   `inv_both_reachable`: together with C10W's invariant `Inv0` under `Cls`, `Fresh`.
2. `usage_eq_sum`, `usage_nonneg`, `cap_nonneg` in every reachable world;
   `ext_error_changes_nothing` (ANY operation, any world: an error leaves the WHOLE world
   unchanged; a script additionally appends the error to the result log: `script_error_log_only`);
   `ext_reserve_atomic` (+ `ext_reserve_iff`), `ext_release_exact`, `ext_merge_usage_unchanged`,
   `ext_merge_holdings`, `ext_self_merge_noop`, `ext_release_unknown`, `ext_add_spec`;
   one-step forms from any world satisfying `Q`: `q_applyOp`, `q_runScript`, `q_check`, `q_exec`,
   `q_step`.
3. `before_init`, `before_init_silent` (before initialisation a manager operation writes no record
   and schedules nothing).
4. `nodup_needed`.
-/
import SimProc.Proofs.C09WWorld
import SimProc.Props.C10W

namespace SimProc
namespace C09W
open World FloorCoreL

/-! ### 0. reachable states -/

/-- **Reachable states of C10W whose outside operations are well-formed** (`opWF`: request
arguments with distinct keys). -/
inductive ReachableW (w0 : World) : World → Prop
  | init : ReachableW w0 w0.simulateInit
  | step {w w' : World} {e : Event} : ReachableW w0 w → w.step = some (e, w') → ReachableW w0 w'
  | loop {w : World} (n : Nat) : ReachableW w0 w → ReachableW w0 (runLoop n w)
  | run {w : World} (d : Int) : ReachableW w0 w → ReachableW w0 (w.runBegin d).1
  | op {w : World} (o : Op) : ReachableW w0 w → C10W.opC o = true → opWF o →
      ReachableW w0 (w.applyOp o).1

theorem ReachableW.reachable {w0 w : World} (h : ReachableW w0 w) : C10W.Reachable w0 w := by
  induction h with
  | init => exact .init
  | step _ hst ih => exact .step ih hst
  | loop n _ ih => exact .loop n ih
  | run d _ ih => exact .run d ih
  | op o _ hok _ ih => exact .op o ih hok

/-- Operations issued from outside BEFORE the simulation is initialised. -/
inductive PreInit (w0 : World) : World → Prop
  | start : PreInit w0 w0
  | op {w : World} (o : Op) : PreInit w0 w → C10W.opC o = true → opWF o →
      PreInit w0 (w.applyOp o).1

/-- **Reachable states with operations before initialisation**: operations, then
`simulateInit`, then the constructors of `ReachableW`. -/
inductive ReachableB (w0 : World) : World → Prop
  | init {w : World} : PreInit w0 w → ReachableB w0 w.simulateInit
  | step {w w' : World} {e : Event} : ReachableB w0 w → w.step = some (e, w') → ReachableB w0 w'
  | loop {w : World} (n : Nat) : ReachableB w0 w → ReachableB w0 (runLoop n w)
  | run {w : World} (d : Int) : ReachableB w0 w → ReachableB w0 (w.runBegin d).1
  | op {w : World} (o : Op) : ReachableB w0 w → C10W.opC o = true → opWF o →
      ReachableB w0 (w.applyOp o).1

theorem ReachableW.toB {w0 w : World} (h : ReachableW w0 w) : ReachableB w0 w := by
  induction h with
  | init => exact .init .start
  | step _ hst ih => exact .step ih hst
  | loop n _ ih => exact .loop n ih
  | run d _ ih => exact .run d ih
  | op o _ hok hwf ih => exact .op o ih hok hwf

/-- After the operations before initialisation the world is as `ReachableW` from there. -/
theorem ReachableB.split {w0 w : World} (h : ReachableB w0 w) :
    ∃ w1, PreInit w0 w1 ∧ ReachableW w1 w := by
  induction h with
  | init hp => exact ⟨_, hp, .init⟩
  | step _ hst ih => obtain ⟨w1, h1, h2⟩ := ih; exact ⟨w1, h1, .step h2 hst⟩
  | loop n _ ih => obtain ⟨w1, h1, h2⟩ := ih; exact ⟨w1, h1, .loop n h2⟩
  | run d _ ih => obtain ⟨w1, h1, h2⟩ := ih; exact ⟨w1, h1, .run d h2⟩
  | op o _ hok hwf ih => obtain ⟨w1, h1, h2⟩ := ih; exact ⟨w1, h1, .op o h2 hok hwf⟩

/-- **The general relation**: from the start world, `simulateInit`, events, runs of the event
loop, run starts and ANY well-formed operation, in any order (no `opC`). -/
inductive Reach (w0 : World) : World → Prop
  | start : Reach w0 w0
  | init {w : World} : Reach w0 w → Reach w0 w.simulateInit
  | step {w w' : World} {e : Event} : Reach w0 w → w.step = some (e, w') → Reach w0 w'
  | loop {w : World} (n : Nat) : Reach w0 w → Reach w0 (runLoop n w)
  | run {w : World} (d : Int) : Reach w0 w → Reach w0 (w.runBegin d).1
  | op {w : World} (o : Op) : Reach w0 w → opWF o → Reach w0 (w.applyOp o).1

theorem PreInit.reach {w0 w : World} (h : PreInit w0 w) : Reach w0 w := by
  induction h with
  | start => exact .start
  | op o _ _ hwf ih => exact .op o ih hwf

theorem ReachableB.reach {w0 w : World} (h : ReachableB w0 w) : Reach w0 w := by
  induction h with
  | init hp => exact .init hp.reach
  | step _ hst ih => exact .step ih hst
  | loop n _ ih => exact .loop n ih
  | run d _ ih => exact .run d ih
  | op o _ _ hwf ih => exact .op o ih hwf

theorem ReachableW.reach {w0 w : World} (h : ReachableW w0 w) : Reach w0 w := h.toB.reach

/-! ### 1. the pool invariant in every reachable world -/

/-- The closed-world invariant `Q` (pool invariant and static clause) in every reachable world. -/
theorem q_reach {w0 w : World} (hW : ReqWF w0) (hI : C09.Inv w0.rm) (hr : Reach w0 w) : Q w := by
  induction hr with
  | start => exact ⟨hI, hW.1, hW.2⟩
  | init _ ih => exact R_simulateInit _ ih
  | step _ hst ih => exact ih.step hst
  | loop n _ ih => exact ih.runLoop n
  | run d _ ih => exact ih.runBegin d
  | op o _ hwf ih => exact R_applyOp _ o hwf ih

/-- **1 (general form).** The pool invariant holds in every world reachable by initialisation,
events, runs and well-formed operations in any order. -/
theorem rmInv_reach {w0 w : World} (hW : ReqWF w0) (hI : C09.Inv w0.rm) (hr : Reach w0 w) :
    C09.Inv w.rm := (q_reach hW hI hr).inv

/-- **1. The pool invariant in the closed world that allows operations from outside**: for
every world reachable as in C10W (initialisation, events, whole runs, run starts, outside
operations of the class `opC` with well-formed request arguments) from a start world whose scripts
and declared requests are well-formed and whose initial pools satisfy the invariant.  (`C10W.Cls`
and `C10W.Fresh` are NOT needed; see `inv_both_reachable` for the conjunction with C10W's
invariant.) -/
theorem rmInv_reachable {w0 w : World} (hW : ReqWF w0) (hI : C09.Inv w0.rm)
    (hr : ReachableW w0 w) : C09.Inv w.rm := rmInv_reach hW hI hr.reach

/-- **3. Operations before initialisation** (finding F9): the same invariant when operations are
issued before `simulateInit`. -/
theorem before_init {w0 w : World} (hW : ReqWF w0) (hI : C09.Inv w0.rm)
    (hr : ReachableB w0 w) : C09.Inv w.rm := rmInv_reach hW hI hr.reach

/-- The static clause is preserved by every step. -/
theorem reqWF_reachable {w0 w : World} (hW : ReqWF w0) (hI : C09.Inv w0.rm) (hr : Reach w0 w) :
    ReqWF w := ⟨(q_reach hW hI hr).scr, (q_reach hW hI hr).dev⟩

/-- The static clause is preserved by single transitions (no reachability needed). -/
theorem q_step {w w' : World} {e : Event} (h : Q w) (hst : w.step = some (e, w')) : Q w' :=
  h.step hst

/-- One-step preservation from ANY world satisfying `Q` (no reachability): a well-formed
operation, a script, the availability check with any fuel (callbacks may reserve, release, merge,
register, add capacity), any event action. -/
theorem q_applyOp {w : World} (h : Q w) (o : Op) (ho : opWF o) : Q (w.applyOp o).1 :=
  R_applyOp w o ho h
theorem q_runScript {w : World} (h : Q w) (k : Nat) : Q (w.runScript k) := R_runScript w k h
theorem q_check {w : World} (h : Q w) (f i : Nat) : Q (scanWaiting scanOps f w i) := Q_scan f w i h
theorem q_exec {w : World} (h : Q w) (a : Action) : Q (w.exec a) := h.exec a

/-- Both closed-world invariants of the manager — C10W's (`Inv0`: shape of the waiting list,
manager initialised, queue invariant) and the pool invariant — in every world of `ReachableW`. -/
theorem inv_both_reachable {w0 w : World} (hC : C10W.Cls w0) (hF : C10W.Fresh w0) (hW : ReqWF w0)
    (hI : C09.Inv w0.rm) (hr : ReachableW w0 w) : C10W.Inv0 w ∧ C09.Inv w.rm :=
  ⟨C10W.inv0_reachable hC hF hr.reachable, rmInv_reachable hW hI hr⟩

/-- Initial pools with distinct keys, capacities ≥ 0, nothing in use and no reservations satisfy
the pool invariant. -/
theorem inv_of_fresh_pools (rm : RM) (hk : (rm.pools.map (·.1)).Nodup)
    (hc : ∀ p ∈ rm.pools, p.2.1 = 0 ∧ 0 ≤ p.2.2) (hr : rm.resv = []) : C09.Inv rm := by
  rw [← invD_iff]
  refine ⟨hk, ?_, ?_, ?_, ?_, ?_, fun p hp => (hc p hp).2⟩
  · intro i; have := i.isLt; simp [hr] at this
  · intro p hp; rw [hr] at hp; cases hp
  · intro p hp; rw [hr] at hp; cases hp
  · intro p hp; rw [hr] at hp; cases hp
  · intro p hp
    obtain ⟨r, u, c⟩ := p
    have hl : rm.lookup r = some (u, c) := alookup_of_mem _ hk _ _ hp
    have : u = 0 := (hc _ hp).1
    subst this
    simp [RM.usage, hl, C09.heldSum, hr]

/-! ### 2. corollaries in every reachable world -/

section
variable {w0 w : World} (hW : ReqWF w0) (hI : C09.Inv w0.rm) (hr : Reach w0 w)
include hW hI hr

/-- **2a.** Usage of every resource equals the sum of the holdings of all outstanding
reservations. -/
theorem usage_eq_sum (r : Nat) : w.rm.usage r = C09.heldSum w.rm r :=
  (rmInv_reach hW hI hr).usageEq r

/-- **2b.** Usage is never negative (even after capacity was reduced below usage). -/
theorem usage_nonneg (r : Nat) : 0 ≤ w.rm.usage r := C09.usage_nonneg _ (rmInv_reach hW hI hr) r

/-- **2c.** Capacity is never negative. -/
theorem cap_nonneg (r : Nat) : 0 ≤ w.rm.capacity r := C09.cap_nonneg _ (rmInv_reach hW hI hr) r

end

/-! ### what the manager operations of the world are -/

theorem rm_rmEffects (w : World) (rm : RM) (recs : List ResRec) (chk : Bool) :
    (({ w with rm := rm } : World).rmEffects recs chk).rm = rm :=
  KR_rm (w := ({ w with rm := rm } : World)) (KR_rmEffects _ recs chk)

theorem rmEffects_nil_false (w : World) : w.rmEffects [] false = w := rfl

theorem getVar_setVar (w : World) (h : Nat) (v : Option Nat) : (w.setVar h v).getVar h = v := by
  unfold getVar setVar
  simp only [List.getD_eq_getElem?_getD]
  split
  · rw [List.getElem?_set_self (by simp; omega)]; rfl
  · rw [List.getElem?_set_self (by omega)]; rfl

/-- The world's `reserve` is the manager's `reserve`. -/
theorem reserve_op (w : World) (h : Nat) (req : Req) :
    (w.applyOp (.reserve h req)).2 = (w.rm.reserve req).2.1 ∧
    (w.applyOp (.reserve h req)).1.rm = (w.rm.reserve req).1 ∧
    ((w.rm.reserve req).2.2.1.isSome →
      (w.applyOp (.reserve h req)).1.getVar h = (w.rm.reserve req).2.2.1) := by
  simp only [applyOp]
  have herr : ∀ e, (w.rm.reserve req).2.1 = .err e →
      (w.rm.reserve req).1 = w.rm ∧ (w.rm.reserve req).2.2.1 = none := by
    intro e he
    unfold RM.reserve at he ⊢
    split
    · exact ⟨rfl, rfl⟩
    · rename_i hneg
      rw [if_neg hneg] at he
      dsimp only at he ⊢
      split at he <;> cases he
  rcases hr : w.rm.reserve req with ⟨rm, res, id, recs⟩
  rw [hr] at herr
  dsimp only at herr ⊢
  split
  · rename_i e
    obtain ⟨h1, h2⟩ := herr e rfl
    refine ⟨rfl, h1.symm, fun hs => ?_⟩
    rw [h2] at hs; cases hs
  · refine ⟨rfl, ?_, fun _ => ?_⟩
    · show (World.rmEffects _ recs false).rm = rm
      exact rm_rmEffects w rm recs false
    · exact getVar_setVar _ h id

/-- The world's `release`, on a handle that is bound. -/
theorem release_op (w : World) (h id : Nat) (part : Option Req) (hv : w.getVar h = some id) :
    (w.applyOp (.release h part)).2 = (w.rm.release id part).2.1 ∧
    (w.applyOp (.release h part)).1.rm = (w.rm.release id part).1 := by
  constructor
  · simp only [applyOp, hv]
  · simp only [applyOp, hv]; exact rm_rmEffects w _ _ _

/-- The world's `merge`, on handles that are bound. -/
theorem merge_op (w : World) (h1 h2 a b : Nat) (ha : w.getVar h1 = some a)
    (hb : w.getVar h2 = some b) :
    (w.applyOp (.merge h1 h2)).2 = (w.rm.merge a b).2 ∧
    (w.applyOp (.merge h1 h2)).1 = { w with rm := (w.rm.merge a b).1 } := by
  constructor <;> simp only [applyOp, ha, hb]

/-- The world's `addRes`. -/
theorem add_op (w : World) (r : Nat) (amt : Int) :
    (w.applyOp (.addRes r amt)).2 = (w.rm.add r amt).2.1 ∧
    (w.applyOp (.addRes r amt)).1.rm = (w.rm.add r amt).1 := by
  constructor
  · simp only [applyOp]
  · simp only [applyOp]; exact rm_rmEffects w _ _ _

/-! ### 2d. errors change nothing -/

theorem sched_err (w : World) (t a : Int) (act : Action) (p : Int) (e : Err)
    (h : (w.sched t a act p).2 = .err e) : (w.sched t a act p).1 = w := by
  unfold World.sched at h ⊢
  dsimp only at h ⊢
  split
  · rename_i heq; rw [heq] at h; cases h
  · rfl

/-- **2d. An operation whose result is an error changes nothing** — for EVERY scripted /
outside operation (in particular `addRes`, `reserve`, `release`, `merge` on the manager: negative
amounts, unknown handles, unknown or excessive release entries, capacity reductions below zero)
and in EVERY world: the whole world is unchanged; the only trace is the returned result … -/
theorem ext_error_changes_nothing (w : World) (o : Op) (e : Err)
    (h : (w.applyOp o).2 = .err e) : (w.applyOp o).1 = w := by
  cases o with
  | sched t a k p => exact sched_err _ _ _ _ _ e h
  | schedRel dt a k p => exact sched_err _ _ _ _ _ e h
  | pause a => cases h
  | unpause a => cases h
  | cancel a => cases h
  | addRes r amt =>
    simp only [applyOp] at h ⊢
    -- an error writes no record and asks for no check
    unfold RM.add at h ⊢
    split
    · rename_i h0; rw [if_pos h0] at h; cases h
    · rename_i h0
      rw [if_neg h0] at h
      split
      · rename_i u c hl
        simp only [hl] at h
        split
        · rfl
        · rename_i hc; rw [if_neg hc] at h; cases h
      · rename_i hl
        simp only [hl] at h
        split
        · rfl
        · rename_i hc; rw [if_neg hc] at h; cases h
  | reserve hd req =>
    simp only [applyOp] at h ⊢
    rcases hr : w.rm.reserve req with ⟨rm, res, id, recs⟩
    rw [hr] at h
    dsimp only at h ⊢
    cases res <;> first | rfl | (dsimp only at h; cases h)
  | release hd part =>
    simp only [applyOp] at h ⊢
    cases hv : w.getVar hd with
    | none => rfl
    | some id =>
      rw [hv] at h
      dsimp only at h ⊢
      unfold RM.release at h ⊢
      cases hh : w.rm.held id with
      | none => rfl
      | some hd' =>
        simp only [hh] at h ⊢
        cases part with
        | none => cases h
        | some rel =>
          dsimp only at h ⊢
          rcases RM.validateRelease_ok_or_err hd' rel with hvr | ⟨e', hvr⟩
          · rw [hvr] at h; cases h
          · rw [hvr]; rfl
  | merge h1 h2 =>
    simp only [applyOp] at h ⊢
    cases ha : w.getVar h1 with
    | none => rfl
    | some a =>
      cases hb : w.getVar h2 with
      | none => rfl
      | some b =>
        rw [ha, hb] at h
        dsimp only at h ⊢
        have : (w.rm.merge a b).1 = w.rm := by
          unfold RM.merge at h ⊢
          split
          · rename_i hm1 hm2
            simp only [hm1, hm2] at h
            split
            · rfl
            · rename_i hab; rw [if_neg hab] at h; cases h
          · rfl
          · rfl
        rw [this]
  | register k req => cases h
  | schedFail d t =>
    simp only [applyOp] at h ⊢
    split
    · rfl
    · rename_i hk; rw [if_neg hk] at h; exact sched_err _ _ _ _ _ e h
  | schedFailRel d dt =>
    simp only [applyOp] at h ⊢
    split
    · rfl
    · rename_i hk; rw [if_neg hk] at h; exact sched_err _ _ _ _ _ e h
  | shutdown d =>
    simp only [applyOp] at h ⊢
    split
    · rfl
    · rename_i hk; rw [if_neg hk] at h; cases h
  | restore d =>
    simp only [applyOp] at h ⊢
    split
    · rfl
    · rename_i hk; rw [if_neg hk] at h; cases h
  | block d b => cases h
  | adjust d n => cases h
  | setCycle d c =>
    simp only [applyOp] at h ⊢
    split
    · rfl
    · rename_i hk; rw [if_neg hk] at h; cases h
  | offsetNext d o => cases h
  | rewire d ups => cases h
  | workOrder m tgt tag info => simp only [applyOp] at h; cases h
  | setParams tgt tag dur need cost => cases h
  | regObj s obj ovr => simp only [applyOp] at h; cases h
  | unregObj s obj => simp only [applyOp] at h; cases h
  | setVar k v => cases h
  | addSensor c s =>
    simp only [applyOp] at h
    split at h <;> cases h
  | create spec => cases h

/-- … and when the operation is issued by a script, the error appended to the result log. -/
theorem script_error_log_only (w : World) (o : Op) (e : Err) (h : (w.applyOp o).2 = .err e) :
    w.applyOps [o] = { w with results := w.results ++ [.err e] } := by
  have h1 := ext_error_changes_nothing w o e h
  simp only [applyOps, List.foldl_cons, List.foldl_nil]
  rcases hr : w.applyOp o with ⟨w', r⟩
  rw [hr] at h h1
  dsimp only at h h1 ⊢
  subst h h1
  rfl

/-! ### 2e. reserve is atomic -/

/-- **2e. An outside `reserve` is atomic.**  In a world whose manager satisfies the pool invariant
(every reachable world: `rmInv_reach`), `reserve h req` with distinct keys either SUCCEEDS — result
`some_`, handle `h` bound to the new reservation `id` (the next id), the usage of every resource
grows by exactly the positive amount requested for it, capacities are unchanged, the new
reservation holds exactly the positive entries — or leaves the manager (every pool, every
reservation) UNCHANGED, writes no record and schedules nothing: the result is then `none_`
(refused: something does not fit or is unknown) or an error (a negative entry). -/
theorem ext_reserve_atomic (w : World) (h : Nat) (req : Req) (hi : C09.Inv w.rm)
    (hk : C09.NodupKeys req) :
    ((w.applyOp (.reserve h req)).2 = .some_ ∧
      ∃ id, id = w.rm.resv.length ∧ (w.applyOp (.reserve h req)).1.getVar h = some id ∧
        (∀ r, (w.applyOp (.reserve h req)).1.rm.usage r =
          w.rm.usage r + (if 0 < C09.amt req r then C09.amt req r else 0)) ∧
        (∀ r, (w.applyOp (.reserve h req)).1.rm.capacity r = w.rm.capacity r) ∧
        (w.applyOp (.reserve h req)).1.rm.held id = some (req.filter (fun p => p.2 > 0))) ∨
    (((w.applyOp (.reserve h req)).2 = .none_ ∨ (w.applyOp (.reserve h req)).2 = .err .value) ∧
      (w.applyOp (.reserve h req)).1.rm = w.rm ∧ (w.applyOp (.reserve h req)).1.recs = w.recs ∧
      (w.applyOp (.reserve h req)).1.env = w.env) := by
  obtain ⟨h1, h2, h3⟩ := reserve_op w h req
  cases hs : (w.rm.reserve req).2.2.1 with
  | some id =>
    left
    obtain ⟨hu, hc, hh, hid⟩ := C09.reserve_takes_exactly w.rm req id hi hk hs
    have hres : (w.rm.reserve req).2.1 = .some_ := by
      unfold RM.reserve at hs ⊢
      split
      · rename_i hn; rw [if_pos hn] at hs; cases hs
      · rename_i hn
        rw [if_neg hn] at hs
        dsimp only at hs ⊢
        split
        · rfl
        · rename_i hc'; rw [if_neg hc'] at hs; cases hs
    refine ⟨h1.trans hres, id, hid, ?_, ?_, ?_, ?_⟩
    · rw [h3 (by rw [hs]; rfl), hs]
    · intro r; rw [h2]; exact hu r
    · intro r; rw [h2]; exact hc r
    · rw [h2]; exact hh
  | none =>
    right
    have heq : (w.rm.reserve req).1 = w.rm := C09.reserve_fail_nothing w.rm req hs
    have hres : (w.rm.reserve req).2.1 = .none_ ∨ (w.rm.reserve req).2.1 = .err .value := by
      unfold RM.reserve at hs ⊢
      split
      · right; rfl
      · rename_i hn
        rw [if_neg hn] at hs
        dsimp only at hs ⊢
        split
        · rename_i hc'; rw [if_pos hc'] at hs; cases hs
        · left; rfl
    have hrecs : (w.rm.reserve req).2.2.2 = [] := by
      unfold RM.reserve at hs ⊢
      split
      · rfl
      · rename_i hn
        rw [if_neg hn] at hs
        dsimp only at hs ⊢
        split
        · rename_i hc'; rw [if_pos hc'] at hs; cases hs
        · rfl
    refine ⟨by rw [h1]; exact hres, h2.trans heq, ?_, ?_⟩
    · simp only [applyOp]
      rcases hr : w.rm.reserve req with ⟨rm, res, id, recs⟩
      rw [hr] at hrecs
      dsimp only at hrecs ⊢
      subst hrecs
      split <;> rfl
    · simp only [applyOp]
      rcases hr : w.rm.reserve req with ⟨rm, res, id, recs⟩
      rw [hr] at hrecs
      dsimp only at hrecs ⊢
      subst hrecs
      split <;> rfl

theorem reserve_res_some_iff (rm : RM) (req : Req) :
    (rm.reserve req).2.1 = .some_ ↔ (rm.reserve req).2.2.1.isSome = true := by
  unfold RM.reserve
  split
  · simp
  · dsimp only
    split <;> simp

/-- … and it succeeds exactly when no entry is negative and every positive entry names a known
resource and fits into capacity minus usage (`C09.fits`). -/
theorem ext_reserve_iff (w : World) (h : Nat) (req : Req) :
    (w.applyOp (.reserve h req)).2 = .some_ ↔ (∀ e ∈ req, 0 ≤ e.2) ∧ C09.fits w.rm req := by
  rw [(reserve_op w h req).1]
  by_cases hn : ∀ e ∈ req, 0 ≤ e.2
  · rw [reserve_res_some_iff, C09.reserve_iff_fits w.rm req hn]
    exact ⟨fun hf => ⟨hn, hf⟩, fun hf => hf.2⟩
  · have hex : ∃ e ∈ req, e.2 < 0 := by
      apply Classical.byContradiction
      intro hcon
      apply hn
      intro e he
      apply Classical.byContradiction
      intro hlt
      exact hcon ⟨e, he, by omega⟩
    rw [(C09.reserve_negative w.rm req hex).1]
    constructor
    · intro hs; cases hs
    · intro ⟨h1, _⟩; exact absurd h1 hn

/-! ### 2f. release gives back exactly what was held (or the stated part) -/

/-- **2f. An outside `release` that succeeds gives back exactly what was held** (`part = none`) **or
exactly the stated part** (`part = some rel`, distinct keys): the usage of every resource drops by
that amount, capacities are unchanged, the reservation's holdings are reduced by it (to nothing
for a full release). -/
theorem ext_release_exact (w : World) (h id : Nat) (hd : Req) (part : Option Req)
    (hi : C09.Inv w.rm) (hv : w.getVar h = some id) (hh : w.rm.held id = some hd)
    (hk : ∀ rel, part = some rel → C09.NodupKeys rel)
    (hok : (w.applyOp (.release h part)).2 = .ok) :
    (∀ r, (w.applyOp (.release h part)).1.rm.usage r = w.rm.usage r - C09.amt (part.getD hd) r) ∧
    (∀ r, (w.applyOp (.release h part)).1.rm.capacity r = w.rm.capacity r) ∧
    (∀ r, ∃ h', (w.applyOp (.release h part)).1.rm.held id = some h' ∧
      C09.amt h' r = C09.amt hd r - C09.amt (part.getD hd) r) := by
  obtain ⟨h1, h2⟩ := release_op w h id part hv
  rw [h2]
  cases part with
  | none =>
    obtain ⟨a, b, c⟩ := C09.release_all_exact w.rm id hd hi hh
    refine ⟨a, b, fun r => ⟨[], c, ?_⟩⟩
    simp [C09.amt, RM.heldAmt]
  | some rel =>
    rw [h1] at hok
    exact C09.release_part_exact w.rm id hd rel hi (hk rel rfl) hh hok

/-- A `release` of an unknown handle or of an unknown reservation id is an `AttributeError` (and,
by `ext_error_changes_nothing`, changes nothing). -/
theorem ext_release_unknown (w : World) (h : Nat) (part : Option Req)
    (hu : ∀ id, w.getVar h = some id → w.rm.held id = none) :
    (w.applyOp (.release h part)).2 = .err .attribute ∧ (w.applyOp (.release h part)).1 = w := by
  have : (w.applyOp (.release h part)).2 = .err .attribute := by
    simp only [applyOp]
    cases hv : w.getVar h with
    | none => rfl
    | some id =>
      dsimp only
      unfold RM.release
      rw [hu id hv]
  exact ⟨this, ext_error_changes_nothing w _ _ this⟩

/-! ### 2g. merge moves holdings without changing usage -/

/-- **2g. An outside `merge` changes no pool** — whatever the handles (bound or not, equal or
not), in every world: usage and capacity of every resource are unchanged; only the holdings
move. -/
theorem ext_merge_usage_unchanged (w : World) (h1 h2 : Nat) :
    (w.applyOp (.merge h1 h2)).1.rm.pools = w.rm.pools ∧
    (∀ r, (w.applyOp (.merge h1 h2)).1.rm.usage r = w.rm.usage r) ∧
    (∀ r, (w.applyOp (.merge h1 h2)).1.rm.capacity r = w.rm.capacity r) ∧
    (w.applyOp (.merge h1 h2)).1.recs = w.recs ∧ (w.applyOp (.merge h1 h2)).1.env = w.env := by
  have hp : (w.applyOp (.merge h1 h2)).1.rm.pools = w.rm.pools ∧
      (w.applyOp (.merge h1 h2)).1.recs = w.recs ∧ (w.applyOp (.merge h1 h2)).1.env = w.env := by
    cases ha : w.getVar h1 with
    | none =>
      have : (w.applyOp (.merge h1 h2)).1 = w := by simp only [applyOp, ha]
      rw [this]; exact ⟨rfl, rfl, rfl⟩
    | some a =>
      cases hb : w.getVar h2 with
      | none =>
        have : (w.applyOp (.merge h1 h2)).1 = w := by simp only [applyOp, ha, hb]
        rw [this]; exact ⟨rfl, rfl, rfl⟩
      | some b =>
        rw [(merge_op w h1 h2 a b ha hb).2]
        exact ⟨C09.merge_usage_unchanged w.rm a b, rfl, rfl⟩
  refine ⟨hp.1, fun r => ?_, fun r => ?_, hp.2⟩
  · unfold RM.usage RM.lookup; rw [hp.1]
  · unfold RM.capacity RM.lookup; rw [hp.1]

/-- For two distinct reservations the first holds the sum afterwards and the second nothing (so
the total held is unchanged — the invariant). -/
theorem ext_merge_holdings (w : World) (h1 h2 a b : Nat) (ha hb : Req) (hi : C09.Inv w.rm)
    (hv1 : w.getVar h1 = some a) (hv2 : w.getVar h2 = some b) (hne : a ≠ b)
    (hh1 : w.rm.held a = some ha) (hh2 : w.rm.held b = some hb) :
    (w.applyOp (.merge h1 h2)).2 = .ok ∧
    ∃ h', (w.applyOp (.merge h1 h2)).1.rm.held a = some h' ∧
      (∀ r, C09.amt h' r = C09.amt ha r + C09.amt hb r) ∧
      (w.applyOp (.merge h1 h2)).1.rm.held b = some [] := by
  obtain ⟨e1, e2⟩ := merge_op w h1 h2 a b hv1 hv2
  rw [e1, e2]
  refine ⟨?_, C09.merge_holdings w.rm a b ha hb hi hne hh1 hh2⟩
  have hab : (a == b) = false := by simpa using hne
  unfold RM.merge; simp only [hh1, hh2, hab, Bool.false_eq_true, if_false]

/-- Merging a reservation into itself is a no-op (finding F11, repaired): the whole world is
unchanged. -/
theorem ext_self_merge_noop (w : World) (h1 h2 : Nat) (hs : w.getVar h1 = w.getVar h2) :
    (w.applyOp (.merge h1 h2)).1 = w := by
  cases ha : w.getVar h1 with
  | none => simp only [applyOp, ha]
  | some a =>
    have hb : w.getVar h2 = some a := by rw [← hs, ha]
    rw [(merge_op w h1 h2 a a ha hb).2]
    have : (w.rm.merge a a).1 = w.rm := by
      unfold RM.merge
      cases w.rm.held a <;> simp
    rw [this]

/-! ### 2h. capacity changes -/

/-- **2h. An outside `addRes`** either succeeds — the capacity of `r` changes by `amt` (possibly
to BELOW its usage), no usage and no other capacity changes — or is refused with a `ValueError`,
exactly when it would make the capacity of `r` negative (for an unknown resource: when `amt < 0`),
and then changes nothing.  Together with `usage_nonneg` / `cap_nonneg`: capacity can be reduced
below usage, but neither ever becomes negative. -/
theorem ext_add_spec (w : World) (r : Nat) (amt : Int) :
    ((w.applyOp (.addRes r amt)).2 = .ok ∧
      (∀ r', (w.applyOp (.addRes r amt)).1.rm.usage r' = w.rm.usage r') ∧
      (∀ r', (w.applyOp (.addRes r amt)).1.rm.capacity r' =
        w.rm.capacity r' + (if r' = r then amt else 0))) ∨
    ((w.applyOp (.addRes r amt)).2 = .err .value ∧ amt < 0 ∧ w.rm.capacity r + amt < 0 ∧
      (w.applyOp (.addRes r amt)).1 = w) := by
  obtain ⟨h1, h2⟩ := add_op w r amt
  by_cases herr : (w.applyOp (.addRes r amt)).2 = .err .value
  · right
    refine ⟨herr, ?_, ?_, ext_error_changes_nothing w _ _ herr⟩
    · rw [h1] at herr
      unfold RM.add at herr
      split at herr
      · cases herr
      · split at herr
        · split at herr
          · rename_i hc; exact hc.1
          · cases herr
        · split at herr
          · assumption
          · cases herr
    · rw [h1] at herr
      unfold RM.add at herr
      split at herr
      · cases herr
      · split at herr
        · rename_i u c hl
          split at herr
          · rename_i hc; simp only [RM.capacity, hl]; simpa using hc.2
          · cases herr
        · rename_i hl
          split at herr
          · rename_i hc; simp only [RM.capacity, hl]; simpa using hc
          · cases herr
  · left
    rw [h1] at herr
    rw [h1, h2]
    unfold RM.add at herr ⊢
    split
    · rename_i h0
      have h0' : amt = 0 := by simpa using h0
      subst h0'
      exact ⟨rfl, fun _ => rfl, fun r' => by split <;> simp⟩
    · rename_i h0
      rw [if_neg h0] at herr
      split
      · rename_i u c hl
        simp only [hl] at herr
        split
        · rename_i hc; rw [if_pos hc] at herr; exact absurd rfl herr
        · rename_i hc
          dsimp only
          have hcap : w.rm.capacity r = c := by simp [RM.capacity, hl]
          have hus : w.rm.usage r = u := by simp [RM.usage, hl]
          refine ⟨rfl, fun r' => ?_, fun r' => ?_⟩
          · rw [RM.usage_setPool]; split
            · rename_i e; rw [e, hus]
            · rfl
          · rw [RM.capacity_setPool]; split
            · rename_i e; rw [e, hcap]
            · simp
      · rename_i hl
        simp only [hl] at herr
        split
        · rename_i hc; rw [if_pos hc] at herr; exact absurd rfl herr
        · rename_i hc
          dsimp only
          have hcap : w.rm.capacity r = 0 := by simp [RM.capacity, hl]
          have hus : w.rm.usage r = 0 := by simp [RM.usage, hl]
          refine ⟨rfl, fun r' => ?_, fun r' => ?_⟩
          · rw [RM.usage_setPool]; split
            · rename_i e; rw [e, hus]
            · rfl
          · rw [RM.capacity_setPool]; split
            · rename_i e; rw [e, hcap]; simp
            · simp

/-! ### 3. before initialisation: nothing is recorded, nothing is scheduled (F9) -/

theorem setPool_inited (rm : RM) (r : Nat) (v : Int × Int) : (rm.setPool r v).inited = rm.inited := by
  unfold RM.setPool; split <;> rfl

theorem take_recs_nil (rm : RM) (req : Req) (hi : rm.inited = false) : (rm.take req).2 = [] := by
  induction req generalizing rm with
  | nil => rfl
  | cons p rest ih =>
    obtain ⟨r, a⟩ := p
    rw [RM.take]
    split
    · exact ih rm hi
    · have h1 : (rm.setPool r (rm.usage r + a, rm.capacity r)).inited = false := by
        rw [setPool_inited]; exact hi
      dsimp only
      rw [ih _ h1]
      unfold RM.recOf
      rw [h1]
      rfl

theorem credit_recs_nil (rm : RM) (req : Req) (hi : rm.inited = false) : (rm.credit req).2 = [] := by
  induction req generalizing rm with
  | nil => rfl
  | cons p rest ih =>
    obtain ⟨r, a⟩ := p
    rw [RM.credit]
    split
    · exact ih rm hi
    · have h1 : (rm.setPool r (rm.usage r - a, rm.capacity r)).inited = false := by
        rw [setPool_inited]; exact hi
      dsimp only
      rw [ih _ h1]
      unfold RM.recOf
      rw [h1]
      rfl

/-- The operations on the manager. -/
def isRmOp : Op → Bool
  | .addRes _ _ | .reserve _ _ | .release _ _ | .merge _ _ | .register _ _ => true
  | _ => false

/-- **3′ (finding F9).** Before the manager is initialised, an operation on the manager writes no
`resource_update` record and schedules nothing (no availability check): records and the event queue
are unchanged, the manager stays uninitialised.  (`simulateInit` then writes one record per pool
and schedules a check if requests are waiting.) -/
theorem before_init_silent (w : World) (o : Op) (ho : isRmOp o = true)
    (hi : w.rm.inited = false) :
    (w.applyOp o).1.recs = w.recs ∧ (w.applyOp o).1.env = w.env ∧
    (w.applyOp o).1.rm.inited = false := by
  cases o with
  | addRes r amt =>
    have key : (w.rm.add r amt).2.2.1 = [] ∧ (w.rm.add r amt).2.2.2 = false ∧
        (w.rm.add r amt).1.inited = false := by
      unfold RM.add
      split
      · exact ⟨rfl, rfl, hi⟩
      · split
        · split
          · exact ⟨rfl, rfl, hi⟩
          · dsimp only
            refine ⟨?_, hi, by rw [setPool_inited]; exact hi⟩
            simp [RM.recOf, hi]
        · split
          · exact ⟨rfl, rfl, hi⟩
          · dsimp only
            refine ⟨?_, hi, by rw [setPool_inited]; exact hi⟩
            simp [RM.recOf, hi]
    simp only [applyOp]
    rcases hr : w.rm.add r amt with ⟨rm, res, recs, chk⟩
    rw [hr] at key
    obtain ⟨k1, k2, k3⟩ := key
    dsimp only at k1 k2 k3 ⊢
    subst k1 k2
    exact ⟨rfl, rfl, k3⟩
  | reserve hd req =>
    have key : (w.rm.reserve req).2.2.2 = [] ∧ (w.rm.reserve req).1.inited = false := by
      unfold RM.reserve
      split
      · exact ⟨rfl, hi⟩
      · dsimp only
        split
        · exact ⟨take_recs_nil _ _ hi, by show (w.rm.take req).1.inited = false; rw [RM.take_inited]; exact hi⟩
        · exact ⟨rfl, hi⟩
    simp only [applyOp]
    rcases hr : w.rm.reserve req with ⟨rm, res, id, recs⟩
    rw [hr] at key
    obtain ⟨k1, k3⟩ := key
    dsimp only at k1 k3 ⊢
    subst k1
    split
    · exact ⟨rfl, rfl, hi⟩
    · exact ⟨rfl, rfl, k3⟩
  | release hd part =>
    simp only [applyOp]
    cases hv : w.getVar hd with
    | none => exact ⟨rfl, rfl, hi⟩
    | some id =>
      dsimp only
      have key : (w.rm.release id part).2.2.1 = [] ∧ (w.rm.release id part).2.2.2 = false ∧
          (w.rm.release id part).1.inited = false := by
        unfold RM.release
        split
        · exact ⟨rfl, rfl, hi⟩
        · split
          · exact ⟨credit_recs_nil _ _ hi, hi, by
              show (w.rm.credit _).1.inited = false; rw [RM.credit_inited]; exact hi⟩
          · split
            · exact ⟨credit_recs_nil _ _ hi, hi, by
                show (w.rm.credit _).1.inited = false; rw [RM.credit_inited]; exact hi⟩
            · exact ⟨rfl, rfl, hi⟩
      rcases hr : w.rm.release id part with ⟨rm, res, recs, chk⟩
      rw [hr] at key
      obtain ⟨k1, k2, k3⟩ := key
      dsimp only at k1 k2 k3 ⊢
      subst k1 k2
      exact ⟨rfl, rfl, k3⟩
  | merge h1 h2 =>
    simp only [applyOp]
    cases w.getVar h1 with
    | none => exact ⟨rfl, rfl, hi⟩
    | some a =>
      cases w.getVar h2 with
      | none => exact ⟨rfl, rfl, hi⟩
      | some b =>
        dsimp only
        refine ⟨rfl, rfl, ?_⟩
        show (w.rm.merge a b).1.inited = false
        unfold RM.merge
        split
        · split
          · exact hi
          · exact hi
        · exact hi
        · exact hi
  | register k req =>
    simp only [applyOp]
    have : (w.rm.register req (.script k)).2 = false := hi
    rw [this]
    exact ⟨rfl, rfl, hi⟩
  | _ => cases ho

/-! ### operations issued from outside, as a list -/

/-- Operations issued from outside one after the other (results dropped). -/
def outside (w : World) (ops : List Op) : World := ops.foldl (fun w o => (w.applyOp o).1) w

theorem ReachableW.outside {w0 w : World} (h : ReachableW w0 w) (ops : List Op)
    (hops : ∀ o ∈ ops, C10W.opC o = true ∧ opWF o) : ReachableW w0 (outside w ops) := by
  unfold C09W.outside
  induction ops generalizing w with
  | nil => exact h
  | cons o ops ih =>
    rw [List.foldl_cons]
    exact ih (.op o h (hops o List.mem_cons_self).1 (hops o List.mem_cons_self).2)
      (fun o' ho' => hops o' (List.mem_cons_of_mem _ ho'))

theorem PreInit.outside {w0 w : World} (h : PreInit w0 w) (ops : List Op)
    (hops : ∀ o ∈ ops, C10W.opC o = true ∧ opWF o) : PreInit w0 (outside w ops) := by
  unfold C09W.outside
  induction ops generalizing w with
  | nil => exact h
  | cons o ops ih =>
    rw [List.foldl_cons]
    exact ih (.op o h (hops o List.mem_cons_self).1 (hops o List.mem_cons_self).2)
      (fun o' ho' => hops o' (List.mem_cons_of_mem _ ho'))

/-! ### 4. the conditions are needed -/

/-- One pool of two units, manager initialised, nothing reserved. -/
def exN : World := { rm := { pools := [(0, 0, 2)], inited := true } }

/-- As `exN`, after `reserve 0 {0: 2}`. -/
def exN2 : World := (exN.applyOp (.reserve 0 [(0, 2)])).1

/-- **4. Distinct keys are needed.**  (a) A `reserve` whose request names resource 0 twice (one
unit each; not a Python dict) is debited twice but the reservation's amount of resource 0 is read
as 1: usage 2 ≠ sum of holdings 1, and the holding has a duplicated key — `C09.Inv` fails.  (b) A
partial `release` naming resource 0 twice (one unit each) of a reservation holding two units
credits the pool twice but reduces the holding by one: usage 0 ≠ 1.  (c) A processor whose DECLARED
request has a duplicated key breaks the invariant in a run without any script or outside operation
(`exD` below: in `Cls`, `Fresh`, initial pools fine). -/
theorem nodup_needed :
    C09.Inv exN.rm ∧ ReqWF exN ∧ ¬ opWF (.reserve 0 [(0, 1), (0, 1)]) ∧
    (exN.applyOp (.reserve 0 [(0, 1), (0, 1)])).1.rm.usage 0 = 2 ∧
    C09.heldSum (exN.applyOp (.reserve 0 [(0, 1), (0, 1)])).1.rm 0 = 1 ∧
    ¬ C09.Inv (exN.applyOp (.reserve 0 [(0, 1), (0, 1)])).1.rm ∧
    C09.Inv exN2.rm ∧ ¬ opWF (.release 0 (some [(0, 1), (0, 1)])) ∧
    (exN2.applyOp (.release 0 (some [(0, 1), (0, 1)]))).2 = .ok ∧
    (exN2.applyOp (.release 0 (some [(0, 1), (0, 1)]))).1.rm.usage 0 = 0 ∧
    C09.heldSum (exN2.applyOp (.release 0 (some [(0, 1), (0, 1)]))).1.rm 0 = 1 ∧
    ¬ C09.Inv (exN2.applyOp (.release 0 (some [(0, 1), (0, 1)]))).1.rm := by
  decide

/-- **`C10W.Fresh` says nothing about the initial pools**: a world of the class `Cls`, fresh, with
well-formed requests, whose single pool claims 5 units in use without any reservation — the pool
invariant fails initially and in every later state (here: after initialisation). -/
theorem fresh_not_enough :
    let w : World := { rm := { pools := [(0, 5, 9)] } }
    C10W.Cls w ∧ C10W.Fresh w ∧ ReqWF w ∧ ¬ C09.Inv w.rm ∧ ¬ C09.Inv (C10W.reach 1 w).rm := by
  decide

/-! ### non-vacuity -/

/-- Three scripted events: script 0 at t = 1, script 1 at t = 3, script 3 at t = 4. -/
def exEnv : Env :=
  (({ terminated := false } : Env).applyAll Arith.exact
    [.sched 1 0 (Action.script 0).toNat 8 0, .sched 3 0 (Action.script 1).toNat 8 0,
     .sched 4 0 (Action.script 3).toNat 8 0]).1

/-- Two pools (0: two units, 1: three units); a source feeding a processor that REQUIRES one unit
of pool 0, and a sink.  Script 0 RESERVES twice (with a zero entry), MERGES the two reservations and
REGISTERS a request with callback script 2; script 1 RELEASES a part, then everything, and REDUCES
the capacity of pool 1; the callback script 2 RESERVES (with a zero entry of an unknown resource);
script 3 issues four operations that are refused with an error (negative entry, release of more
than held, merge with an unbound handle, capacity below zero). -/
def exW : World :=
  { env := exEnv
    scripts := [[.reserve 0 [(0, 1), (1, 2)], .reserve 1 [(1, 1), (0, 0)], .merge 0 1,
                 .register 2 [(1, 2)]],
                [.release 0 (some [(1, 1)]), .release 0 none, .addRes 1 (-1)],
                [.reserve 2 [(1, 2), (7, 0)]],
                [.reserve 3 [(0, -1)], .release 1 (some [(0, 5)]), .merge 0 9, .addRes 0 (-5)]]
    rm := { pools := [(0, 0, 2), (1, 0, 3)] }
    devs := [{ kind := .source, aid := 1, down := [1], cycle := 1, maxParts := some 3 },
             { kind := .processor, aid := 2, up := [0], down := [2], cycle := 2, resReq := some [(0, 1)] },
             { kind := .sink, aid := 3, up := [1] }]
    assets := [.dev 0, .dev 1, .dev 2] }

/-- The hypotheses of all theorems are satisfiable on this world (it is also in C10W's class) … -/
example : ReqWF exW ∧ C09.Inv exW.rm ∧ C10W.Cls exW ∧ C10W.Fresh exW := by decide

/-- … and fail where they should: a scripted `reserve` / partial `release` / constructed or
declared processor with a duplicated key; negative, zero and unknown entries, duplicated keys in a
`register`, any `merge` are inside. -/
example : ¬ ReqWF { exW with scripts := [[.reserve 0 [(0, 1), (0, 1)]]] } ∧
    ¬ ReqWF { exW with scripts := [[.release 0 (some [(1, 1), (1, 0)])]] } ∧
    ¬ ReqWF { exW with scripts := [[.create (.dev { kind := .processor, resReq := some [(0, 1), (0, 2)] })]] } ∧
    ¬ ReqWF { exW with devs := [{ kind := .processor, aid := 1, resReq := some [(1, 1), (1, 1)] }] } ∧
    ReqWF { exW with scripts := [[.reserve 0 [(0, -1), (1, 0), (9, 4)], .release 0 (some [(5, -2)]),
      .register 1 [(0, 1), (0, 1)], .merge 3 3, .addRes 7 (-2),
      .create (.dev { kind := .processor, resReq := some [(0, 0), (1, -1)] })]] } := by
  decide

/-- The world at t = 3, after script 1 and the availability check it caused (which ran the
callback script 2). -/
def exW12 : World := C10W.reach 12 exW

theorem exW12_reachable : ReachableW exW exW12 := .loop 12 .init

/-- The run so far: the processor holds reservation 0; the scripts' reservations 1 and 2 were
merged and released; reservation 3 was made by the callback; pool 1 lost a unit. -/
example : exW12.now = 3 ∧ exW12.rm.pools = [(0, 1, 2), (1, 2, 2)] ∧
    exW12.rm.resv = [(0, [(0, 1)]), (1, []), (2, []), (3, [(1, 2)])] ∧
    exW12.vars = [some 1, some 2, some 3] ∧
    exW12.results = [.some_, .some_, .ok, .ok, .ok, .ok, .ok, .cb 2, .some_] := by decide

/-- t = 1, after script 0: reservation 1 holds the merged amounts, reservation 2 nothing; usage is
the sum of the holdings (processor + scripts). -/
example : (C10W.reach 3 exW).rm.pools = [(0, 2, 2), (1, 3, 3)] ∧
    (C10W.reach 3 exW).rm.resv = [(0, [(0, 1)]), (1, [(0, 1), (1, 3)]), (2, [])] ∧
    (C10W.reach 3 exW).rm.waiting = [([(1, 2)], .script 2)] := by decide

/-- `rmInv_reachable`, `usage_eq_sum`, `usage_nonneg`, `cap_nonneg` instantiated (hypotheses by
`decide`). -/
example : C09.Inv exW12.rm := rmInv_reachable (by decide) (by decide) exW12_reachable
example : exW12.rm.usage 1 = C09.heldSum exW12.rm 1 :=
  usage_eq_sum (by decide) (by decide) exW12_reachable.reach 1
example : 0 ≤ exW12.rm.usage 0 ∧ 0 ≤ exW12.rm.capacity 1 :=
  ⟨usage_nonneg (by decide) (by decide) exW12_reachable.reach 0,
   cap_nonneg (by decide) (by decide) exW12_reachable.reach 1⟩
example : exW12.rm.usage 1 = 2 ∧ C09.heldSum exW12.rm 1 = 2 ∧ exW12.rm.usage 0 = 1 := by decide

/-- Operations issued from outside at t = 3: a refused reserve, a reserve with a negative entry,
a release of an unbound handle, a self-merge, a successful reserve (with a zero entry), a capacity
reduction BELOW usage, a registration with a duplicated key (allowed: it is only tested for
feasibility) whose callback is script 1, the construction of a second processor (declared request
with a negative entry). -/
def exOps : List Op :=
  [.reserve 5 [(0, 2)], .reserve 5 [(0, 1), (1, -1)], .release 9 none, .merge 2 2,
   .reserve 5 [(0, 1), (1, 0)], .addRes 1 (-1), .register 1 [(0, 1), (0, 1)],
   .create (.dev { kind := .processor, resReq := some [(1, 1), (0, -3)] })]

example : exOps.map (fun o => (exW12.applyOp o).2) =
    [.none_, .err .value, .err .attribute, .ok, .some_, .ok, .ok, .ok] := by decide

/-- The world after the outside operations, and after the rest of the run. -/
def exW13 : World := outside exW12 exOps
def exW14 : World := runLoop 20 exW13

theorem exW13_reachable : ReachableW exW exW13 :=
  exW12_reachable.outside exOps (by decide)
theorem exW14_reachable : ReachableW exW exW14 := .loop 20 exW13_reachable

/-- After the outside operations: usage 2 of pool 1 EXCEEDS its capacity 1 (reduced below usage),
usage still equals the sum of the holdings … -/
example : exW13.rm.pools = [(0, 2, 2), (1, 2, 1)] ∧
    exW13.rm.resv = [(0, [(0, 1)]), (1, []), (2, []), (3, [(1, 2)]), (4, [(0, 1)])] ∧
    exW13.vars = [some 1, some 2, some 3, none, none, some 4] := by decide

example : C09.Inv exW13.rm := rmInv_reachable (by decide) (by decide) exW13_reachable

/-- … and at the end of the run (the registered callback script 1 ran: an error, a release, another
capacity reduction — to 0; script 3's four operations were all refused with an error; the
processor released its unit). -/
example : exW14.now = 7 ∧ exW14.rm.pools = [(0, 1, 2), (1, 2, 0)] ∧
    exW14.rm.resv = [(0, []), (1, []), (2, []), (3, [(1, 2)]), (4, [(0, 1)])] ∧
    exW14.results.drop 9 = [.err .value, .err .key, .err .type_, .err .value, .cb 1, .err .key, .ok, .ok] :=
  by decide

example : C09.Inv exW14.rm := rmInv_reachable (by decide) (by decide) exW14_reachable
example : ReqWF exW14 := reqWF_reachable (by decide) (by decide) exW14_reachable.reach
example : exW14.devs.length = 4 ∧ (exW14.dev 3).resReq = some [(1, 1), (0, -3)] := by decide
example : C10W.Inv0 exW14 ∧ C09.Inv exW14.rm :=
  inv_both_reachable (by decide) (by decide) (by decide) (by decide) exW14_reachable
example : exW14.rm.usage 1 = C09.heldSum exW14.rm 1 ∧ 0 ≤ exW14.rm.usage 1 ∧ 0 ≤ exW14.rm.capacity 1 :=
  ⟨usage_eq_sum (by decide) (by decide) exW14_reachable.reach 1,
   usage_nonneg (by decide) (by decide) exW14_reachable.reach 1,
   cap_nonneg (by decide) (by decide) exW14_reachable.reach 1⟩

/-- `ext_error_changes_nothing`: the reserve with a negative entry and the release of an unbound
handle leave the whole world unchanged (and, by `decide`, so do they). -/
example : (exW12.applyOp (.reserve 5 [(0, 1), (1, -1)])).1 = exW12 :=
  ext_error_changes_nothing exW12 _ .value (by decide)
example : (exW12.applyOp (.release 9 none)).2 = .err .attribute ∧
    (exW12.applyOp (.release 9 none)).1 = exW12 :=
  ext_release_unknown exW12 9 none (by decide)
example : (exW12.applyOp (.reserve 5 [(0, 1), (1, -1)])).1.rm.pools = exW12.rm.pools ∧
    (exW12.applyOp (.reserve 5 [(0, 1), (1, -1)])).1.rm.resv = exW12.rm.resv ∧
    (exW12.applyOp (.release 9 none)).1.rm.pools = exW12.rm.pools := by decide

/-- `script_error_log_only` on script 3's first operation. -/
example : exW12.applyOps [.reserve 3 [(0, -1)]] = { exW12 with results := exW12.results ++ [.err .value] } :=
  script_error_log_only exW12 _ .value (by decide)

/-- `ext_reserve_atomic`: the refused reserve takes the second branch, the successful one the
first (`ext_reserve_iff` decides which). -/
example : ¬ ((∀ e ∈ [((0 : Nat), (2 : Int))], 0 ≤ e.2) ∧ C09.fits exW12.rm [(0, 2)]) := by
  rw [← ext_reserve_iff exW12 5]; decide
example : (exW12.applyOp (.reserve 5 [(0, 2)])).2 = .none_ ∧
    (exW12.applyOp (.reserve 5 [(0, 2)])).1.rm = exW12.rm := by
  have h := ext_reserve_atomic exW12 5 [(0, 2)]
    (rmInv_reachable (by decide) (by decide) exW12_reachable) (by decide)
  rcases h with ⟨h1, _⟩ | ⟨h1, h2, _⟩
  · exact absurd h1 (by decide)
  · exact ⟨by decide, h2⟩
example : (exW12.applyOp (.reserve 5 [(0, 1), (1, 0)])).2 = .some_ ∧
    (exW12.applyOp (.reserve 5 [(0, 1), (1, 0)])).1.getVar 5 = some 4 ∧
    (exW12.applyOp (.reserve 5 [(0, 1), (1, 0)])).1.rm.held 4 = some [(0, 1)] ∧
    (exW12.applyOp (.reserve 5 [(0, 1), (1, 0)])).1.rm.usage 0 = exW12.rm.usage 0 + 1 ∧
    (exW12.applyOp (.reserve 5 [(0, 1), (1, 0)])).1.rm.usage 1 = exW12.rm.usage 1 := by decide

/-- `ext_release_exact` on handle 2 (reservation 3, holding two units of pool 1): a partial release
of one unit, and a full release. -/
example :
    (∀ r, (exW12.applyOp (.release 2 (some [(1, 1)]))).1.rm.usage r =
      exW12.rm.usage r - C09.amt [(1, 1)] r) ∧
    (∀ r, (exW12.applyOp (.release 2 (some [(1, 1)]))).1.rm.capacity r = exW12.rm.capacity r) ∧
    (∀ r, ∃ h', (exW12.applyOp (.release 2 (some [(1, 1)]))).1.rm.held 3 = some h' ∧
      C09.amt h' r = C09.amt [(1, 2)] r - C09.amt [(1, 1)] r) :=
  ext_release_exact exW12 2 3 [(1, 2)] (some [(1, 1)])
    (rmInv_reachable (by decide) (by decide) exW12_reachable) (by decide) (by decide)
    (by intro rel h; cases h; decide) (by decide)
example : (exW12.applyOp (.release 2 (some [(1, 1)]))).1.rm.pools = [(0, 1, 2), (1, 1, 2)] ∧
    (exW12.applyOp (.release 2 (some [(1, 1)]))).1.rm.held 3 = some [(1, 1)] ∧
    (exW12.applyOp (.release 2 none)).1.rm.pools = [(0, 1, 2), (1, 0, 2)] ∧
    (exW12.applyOp (.release 2 none)).1.rm.held 3 = some [] := by decide

/-- `ext_self_merge_noop`, `ext_merge_usage_unchanged`, `ext_merge_holdings` (handle 2 =
reservation 3 is merged into handle 0 = reservation 1; merging into the unbound handle 9 … see
`exOps`). -/
example : (exW12.applyOp (.merge 2 2)).1 = exW12 := ext_self_merge_noop exW12 2 2 rfl
example : (exW12.applyOp (.merge 2 0)).1.rm.pools = exW12.rm.pools :=
  (ext_merge_usage_unchanged exW12 2 0).1
example : (exW12.applyOp (.merge 2 0)).1.rm.resv = [(0, [(0, 1)]), (1, []), (2, []), (3, [(1, 2)])] ∧
    (exW12.applyOp (.merge 0 2)).1.rm.resv = [(0, [(0, 1)]), (1, [(1, 2)]), (2, []), (3, [])] := by
  decide
example : (exW12.applyOp (.merge 0 2)).2 = .ok ∧
    ∃ h', (exW12.applyOp (.merge 0 2)).1.rm.held 1 = some h' ∧
      (∀ r, C09.amt h' r = C09.amt [] r + C09.amt [(1, 2)] r) ∧
      (exW12.applyOp (.merge 0 2)).1.rm.held 3 = some [] :=
  ext_merge_holdings exW12 0 2 1 3 [] [(1, 2)]
    (rmInv_reachable (by decide) (by decide) exW12_reachable) (by decide) (by decide) (by decide)
    (by decide) (by decide)

/-- `ext_add_spec`: reducing the capacity of pool 1 by one is accepted although two units are in
use (capacity 1 < usage 2 afterwards: `exW13`); reducing pool 0 by five is refused. -/
example : (exW12.applyOp (.addRes 1 (-1))).2 = .ok ∧
    (exW12.applyOp (.addRes 1 (-1))).1.rm.capacity 1 = 1 ∧
    (exW12.applyOp (.addRes 1 (-1))).1.rm.usage 1 = 2 ∧
    (exW12.applyOp (.addRes 0 (-5))).2 = .err .value := by decide
example : (exW12.applyOp (.addRes 0 (-5))).1 = exW12 := by
  rcases ext_add_spec exW12 0 (-5) with ⟨h, _⟩ | ⟨_, _, _, h⟩
  · exact absurd h (by decide)
  · exact h

/-- `inv_of_fresh_pools`: the initial pools of `exW`. -/
example : C09.Inv exW.rm := inv_of_fresh_pools exW.rm (by decide) (by decide) rfl

/-! #### before initialisation (finding F9) -/

/-- Operations issued BEFORE `simulateInit`: a new pool, a reserve, a refused reserve, a
registration (the F9 situation: the request waits, no check can be scheduled yet). -/
def exPre : List Op :=
  [.addRes 2 4, .reserve 7 [(2, 1), (0, 1)], .reserve 8 [(2, 9)], .register 2 [(1, 1)], .addRes 2 (-9)]

def exB0 : World := outside exW exPre
def exB : World := runLoop 20 exB0.simulateInit

theorem exB_reachable : ReachableB exW exB :=
  .loop 20 (.init (PreInit.start.outside exPre (by decide)))

/-- Before initialisation nothing is recorded and nothing scheduled, but the pools and the
reservations are kept: `before_init_silent`, and by `decide` … -/
example : exB0.recs = [] ∧ exB0.env.events = exW.env.events ∧ exB0.rm.inited = false ∧
    exB0.rm.pools = [(0, 1, 2), (1, 0, 3), (2, 1, 4)] ∧ exB0.rm.resv = [(0, [(2, 1), (0, 1)])] ∧
    exB0.rm.waiting = [([(1, 1)], .script 2)] ∧
    exPre.map (fun o => (exW.applyOp o).2) = [.ok, .none_, .none_, .ok, .err .value] := by decide

example : (exW.applyOp (.addRes 2 4)).1.recs = exW.recs ∧ (exW.applyOp (.addRes 2 4)).1.env = exW.env ∧
    (exW.applyOp (.addRes 2 4)).1.rm.inited = false :=
  before_init_silent exW _ rfl rfl

/-- … `simulateInit` then writes one record per pool and schedules the check for the waiting
request; the invariant holds at the end of the run (`before_init`). -/
example : exB0.simulateInit.recs.length = 3 ∧
    C11W.QueuedL exB0.simulateInit .rmCheck 0 pOtherHigh (-1) := by decide

example : C09.Inv exB.rm := before_init (by decide) (by decide) exB_reachable

/-- The end of that run: the reservation made before initialisation is still there; the request
registered before initialisation was served by the first check (callback script 2: reservation 1);
pool 1 is over-used after script 1 reduced its capacity (usage 3 > capacity 2) — usage still equals
the sum of the holdings and nothing is negative. -/
example : exB.rm.pools = [(0, 2, 2), (1, 3, 2), (2, 1, 4)] ∧
    exB.rm.resv = [(0, [(2, 1), (0, 1)]), (1, [(1, 2)]), (2, [(0, 1)]), (3, [(1, 1)])] ∧
    exB.results.take 2 = [.cb 2, .some_] ∧
    exB.rm.usage 1 = 3 ∧ C09.heldSum exB.rm 1 = 3 ∧ exB.rm.capacity 1 = 2 := by decide

/-! #### the declared request of a processor -/

/-- As `exW` without scripts, the processor's DECLARED request naming pool 0 twice. -/
def exD : World :=
  { exW with
    scripts := []
    devs := [{ kind := .source, aid := 1, down := [1], cycle := 1, maxParts := some 3 },
             { kind := .processor, aid := 2, up := [0], down := [2], cycle := 2,
               resReq := some [(0, 1), (0, 1)] },
             { kind := .sink, aid := 3, up := [1] }] }

/-- `nodup_needed` (c): in the class `Cls`, fresh, initial pools fine, no script, no outside
operation — only `ReqWF` fails — and the invariant fails as soon as the processor acquires. -/
example : C10W.Cls exD ∧ C10W.Fresh exD ∧ C09.Inv exD.rm ∧ ¬ ReqWF exD ∧
    (C10W.reach 3 exD).rm.pools = [(0, 2, 2), (1, 0, 3)] ∧
    (C10W.reach 3 exD).rm.resv = [(0, [(0, 1), (0, 1)])] ∧
    ¬ C09.Inv (C10W.reach 3 exD).rm := by decide

end C09W
end SimProc
