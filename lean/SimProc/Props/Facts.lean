/-
Obligations over the facts regenerated from /repo's Python sources on every run
(`SimProc/Gen/Facts.lean`, written by `harness/facts.py`).  They tie the constants the
hand-written model uses to what the source says *now*; all are closed by `decide` over the
(finite) generated tables.
-/
import SimProc.Gen.Facts
import SimProc.Model.Basic

namespace SimProc
namespace Facts

def prioOf (n : String) : Option Int := (Gen.eventTypes.lookup n).map (4 * ·)

/-- The priorities hard-coded in the model are the values of `EventType` in the source. -/
theorem prio_table :
    prioOf "TERMINATE" = some pTerminate ∧ prioOf "OTHER_LOW_PRIORITY" = some pOtherLow ∧
    prioOf "START_WORK" = some pStartWork ∧ prioOf "SENSOR" = some pSensor ∧
    prioOf "FAIL" = some pFail ∧ prioOf "RELEASE_RESERVED_RESOURCES" = some pRelease ∧
    prioOf "PASS_PART" = some pPassPart ∧ prioOf "FINISH_PROCESSING" = some pFinish ∧
    prioOf "RESTORE" = some pRestore ∧ prioOf "FINISH_WORK" = some pFinishWork ∧
    prioOf "OTHER_HIGH_PRIORITY" = some pOtherHigh := by decide

/-- `TERMINATE` is strictly below every other event type. -/
theorem terminate_lowest :
    ∀ p ∈ Gen.eventTypes, p.1 ≠ "TERMINATE" → 1 < p.2 := by decide

/-- Event type values are pairwise distinct (`@unique`). -/
theorem event_types_distinct : (Gen.eventTypes.map (·.2)).Nodup := by decide

/-- `Event.__lt__` is the four-level chain the model's `Event.lt` implements:
lower time, then higher event type, then lower random weight, then lower asset id. -/
theorem lt_chain :
    Gen.ltChain = some [("time", true), ("event_type", false), ("random_weight", true),
      ("asset_id", true)] := by decide

/-- `schedule_event` rejects a time before `now` before creating the event. -/
theorem past_guard : Gen.schedulePastGuard = true := by decide

/-- The order the throughput argument (C03/C04/C11) relies on. -/
theorem release_pass_finish_order :
    pRelease < pPassPart ∧ pPassPart < pFinish ∧ pFinish < pRestore ∧ pTerminate < pOtherLow := by
  decide

def hasSite (c m et t a act : String) : Bool :=
  Gen.scheduleSites.any (fun s => s == (c, m, et, t, a, act))

/-- The schedule sites the model mirrors, with their event type, time and asset. -/
theorem schedule_sites :
    hasSite "ResourceManager" "_schedule_check_pending_requesters" "OTHER_HIGH_PRIORITY" "now" "-1"
        "self._check_pending_requests" = true ∧
    hasSite "Environment" "run" "TERMINATE" "other" "-1" "self._terminate" = true ∧
    hasSite "PartHandler" "_schedule_finish_cycle" "FINISH_PROCESSING" "now+" "self.id"
        "self._finish_cycle" = true ∧
    hasSite "PartHandler" "_schedule_pass_part_downstream" "PASS_PART" "param" "self.id"
        "self._pass_part_downstream" = true ∧
    hasSite "PartProcessor" "_finish_cycle" "RELEASE_RESERVED_RESOURCES" "now" "self.id"
        "self._release_resources_if_idle" = true ∧
    hasSite "PartProcessor" "schedule_failure" "FAIL" "param" "self.id" "self._fail" = true := by
  decide

/-- The only event with asset id −1 besides the resource manager's check is `run`'s terminate
event; every other library event carries its owner's id (`self.id`). -/
theorem internal_asset_sites :
    ∀ s ∈ Gen.scheduleSites, s.2.2.2.2.1 = "-1" →
      s.1 = "ResourceManager" ∨ s.1 = "Environment" := by decide

end Facts
end SimProc
