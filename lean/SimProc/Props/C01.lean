/-
C01 — events run in time-then-priority order; the clock never goes backwards.

All theorems are about `SimProc/Model/Env.lean` and hold for EVERY list of environment
operations (issued from outside or from inside event actions), every weight, every priority and
— unless `Arith.exact` is mentioned — every arithmetic on time values.
-/
import SimProc.Proofs.EnvLemmas

namespace SimProc
namespace C01

/-- The queue invariant. -/
structure Inv (s : Env) : Prop where
  sorted : SortedEv s.events
  future : ∀ e ∈ s.events, s.now ≤ e.time
  uids   : ((s.events ++ s.paused).map Event.uid).Nodup
  fresh  : ∀ e ∈ s.events ++ s.paused, e.uid < s.nextUid

theorem inv_init : Inv {} := by
  constructor <;> simp [SortedEv]

/-! ### one-step preservation -/

theorem shiftTime_ge (ar : Arith) (now t p : Int) : now ≤ shiftTime ar now t p := by
  unfold shiftTime; simp only; split <;> omega

theorem inv_schedule {s s' : Env} {t a : Int} {act : Nat} {p : Int} {w : Nat}
    (h : Inv s) (hs : s.schedule t a act p w = some s') : Inv s' := by
  obtain ⟨hge, rfl⟩ := Env.schedule_some.mp hs
  generalize hx : s.newEvent t a act p w = x
  have hxu : x.uid = s.nextUid := by rw [← hx]; rfl
  have hxt : x.time = t := by rw [← hx]; rfl
  refine ⟨insort_sorted h.sorted, ?_, ?_, ?_⟩
  · intro e he
    rcases insort_mem.mp he with rfl | he
    · simp only; omega
    · exact h.future e he
  · have hp : ((insort x s.events ++ s.paused).map Event.uid).Perm
        (x.uid :: (s.events ++ s.paused).map Event.uid) := by
      simpa using ((insort_perm x s.events).append_right s.paused).map Event.uid
    refine hp.nodup_iff.mpr (List.nodup_cons.mpr ⟨?_, h.uids⟩)
    intro hm
    rcases List.mem_map.mp hm with ⟨e, he, heq⟩
    have := h.fresh e he
    omega
  · intro e he
    simp only [List.mem_append] at he
    rcases he with he | he
    · rcases insort_mem.mp he with rfl | he
      · simp only; omega
      · have := h.fresh e (by simp [he]); simp only; omega
    · have := h.fresh e (by simp [he]); simp only; omega

theorem schedule_past_rejected (s : Env) (t a : Int) (act : Nat) (p : Int) (w : Nat)
    (h : t < s.now) : s.schedule t a act p w = none := by
  simp [Env.schedule, h]

theorem schedule_accepted_iff (s : Env) (t a : Int) (act : Nat) (p : Int) (w : Nat) :
    (s.schedule t a act p w).isSome ↔ s.now ≤ t := by
  unfold Env.schedule; split <;> simp <;> omega

/-- A rejected request changes nothing and reports `rejected`. -/
theorem apply_sched_past (ar : Arith) (s : Env) (t a : Int) (act : Nat) (p : Int) (w : Nat)
    (h : t < s.now) : s.apply ar (.sched t a act p w) = (s, .rejected) := by
  simp [Env.apply, schedule_past_rejected s t a act p w h]

theorem inv_pause {s : Env} (a : Int) (h : Inv s) : Inv (s.pause a) := by
  unfold Env.pause
  refine ⟨h.sorted.filter _, ?_, ?_, ?_⟩
  · intro e he
    exact h.future e (List.mem_filter.mp he).1
  · have hp : ((s.events.filter (fun e : Event => !(e.asset == a)) ++
        (s.paused ++ (s.events.filter (fun e : Event => e.asset == a)).map
          (fun e : Event => { e with pausedAt := some s.now }))).map Event.uid).Perm
        ((s.events ++ s.paused).map Event.uid) := by
      have h1 := (filter_split_perm (fun e : Event => e.asset == a) s.events).map Event.uid
      simp only [List.map_append, List.map_map] at h1 ⊢
      have h2 : (Event.uid ∘ fun e => { e with pausedAt := some s.now })
          = Event.uid := by funext e; rfl
      rw [h2]
      refine List.Perm.trans ?_ (List.Perm.append_right _ h1)
      rw [List.append_assoc]
      exact List.Perm.append_left _ List.perm_append_comm
    exact hp.nodup_iff.mpr h.uids
  · intro e he
    simp only [List.mem_append, List.mem_filter, List.mem_map] at he
    rcases he with ⟨he, _⟩ | he | ⟨e0, ⟨he0, _⟩, rfl⟩
    · exact h.fresh e (by simp [he])
    · exact h.fresh e (by simp [he])
    · exact h.fresh e0 (by simp [he0])

theorem inv_unpause (ar : Arith) {s : Env} (a : Int) (h : Inv s) : Inv (s.unpause ar a) := by
  unfold Env.unpause
  simp only [foldl_insort_map]
  refine ⟨insortAll_sorted h.sorted, ?_, ?_, ?_⟩
  · intro e he
    rcases insortAll_mem.mp he with he | he
    · rcases List.mem_map.mp he with ⟨e0, _, rfl⟩
      exact shiftTime_ge ar _ _ _
    · exact h.future e he
  · have hp : ((insortAll s.events ((s.paused.filter (fun e => e.asset == a)).map
        (fun e => { e with time := shiftTime ar s.now e.time (e.pausedAt.getD s.now) })) ++
        s.paused.filter (fun e => !(e.asset == a))).map Event.uid).Perm
        ((s.events ++ s.paused).map Event.uid) := by
      have h1 := (filter_split_perm (fun e : Event => e.asset == a) s.paused).map Event.uid
      have h0 := ((insortAll_perm s.events ((s.paused.filter (fun e => e.asset == a)).map
        (fun e => { e with time := shiftTime ar s.now e.time (e.pausedAt.getD s.now) }))).append_right
        (s.paused.filter (fun e => !(e.asset == a)))).map Event.uid
      refine h0.trans ?_
      simp only [List.map_append, List.map_map] at h1 ⊢
      have h2 : (Event.uid ∘
          fun e => { e with time := shiftTime ar s.now e.time (e.pausedAt.getD s.now) })
          = Event.uid := by funext e; rfl
      rw [h2]
      refine List.Perm.trans ?_ (List.Perm.append_left _ h1)
      refine (List.Perm.append_right _ List.perm_append_comm).trans ?_
      rw [List.append_assoc]
      exact List.Perm.append_left _ List.perm_append_comm
    exact hp.nodup_iff.mpr h.uids
  · intro e he
    simp only [List.mem_append, List.mem_filter] at he
    rcases he with he | ⟨he, _⟩
    · rcases insortAll_mem.mp he with he | he
      · rcases List.mem_map.mp he with ⟨e0, he0, rfl⟩
        exact h.fresh e0 (by simp [(List.mem_filter.mp he0).1])
      · exact h.fresh e (by simp [he])
    · exact h.fresh e (by simp [he])

theorem inv_cancel {s : Env} (a : Int) (h : Inv s) : Inv (s.cancel a) := by
  unfold Env.cancel
  refine ⟨h.sorted.map_congr _ (fun e => by simp), ?_, ?_, ?_⟩
  · intro e he
    rcases List.mem_map.mp he with ⟨e0, he0, rfl⟩
    simpa using h.future e0 he0
  · simp only [← List.map_append, List.map_map]
    have : (Event.uid ∘ Event.cancelIf a) = Event.uid := by funext e; simp
    rw [this]; exact h.uids
  · intro e he
    simp only [← List.map_append] at he
    rcases List.mem_map.mp he with ⟨e0, he0, rfl⟩
    simpa using h.fresh e0 he0

theorem inv_step {s s' : Env} {e : Event} (h : Inv s) (hp : s.step = some (e, s')) : Inv s' := by
  obtain ⟨es, heq, rfl⟩ := Env.step_some.mp hp
  have hsort : SortedEv (e :: es) := heq ▸ h.sorted
  refine ⟨hsort.tail, ?_, ?_, ?_⟩
  · intro e' he'
    exact Event.nlt_time (hsort.head_min e' he')
  · have := h.uids
    rw [heq] at this
    simp only [List.cons_append, List.map_cons, List.nodup_cons] at this
    exact this.2
  · intro e' he'
    refine h.fresh e' ?_
    rw [heq]
    simp only [List.mem_append] at he' ⊢
    rcases he' with he' | he'
    · left; exact List.mem_cons_of_mem _ he'
    · right; exact he'

theorem inv_runBegin (ar : Arith) {s s' : Env} {d : Int} {w : Nat} (h : Inv s)
    (hr : s.runBegin ar d w = some s') : Inv s' := by
  unfold Env.runBegin at hr
  exact inv_schedule (s := { s with terminated := false })
    ⟨h.sorted, h.future, h.uids, h.fresh⟩ hr

/-- **Every operation preserves the invariant, for every arithmetic.** -/
theorem inv_apply (ar : Arith) {s : Env} (op : EnvOp) (h : Inv s) : Inv (s.apply ar op).1 := by
  cases op with
  | sched t a act p w =>
    simp only [Env.apply]
    cases hs : s.schedule t a act p w with
    | none => exact h
    | some s' => exact inv_schedule h hs
  | pause a => exact inv_pause a h
  | unpause a => exact inv_unpause ar a h
  | cancel a => exact inv_cancel a h
  | step =>
    simp only [Env.apply]
    cases hs : s.step with
    | none => exact h
    | some p => obtain ⟨e, s'⟩ := p; exact inv_step h hs
  | runBegin d w =>
    simp only [Env.apply]
    cases hs : s.runBegin ar d w with
    | none => exact h
    | some s' => exact inv_runBegin ar h hs

/-- **The invariant holds in every reachable state.** -/
theorem inv_applyAll (ar : Arith) {s : Env} (ops : List EnvOp) (h : Inv s) :
    Inv (s.applyAll ar ops).1 := by
  induction ops generalizing s with
  | nil => exact h
  | cons op ops ih =>
    simp only [Env.applyAll]
    exact ih (inv_apply ar op h)

theorem inv_reachable (ar : Arith) (ops : List EnvOp) : Inv ((({} : Env).applyAll ar ops).1) :=
  inv_applyAll ar ops inv_init

/-! ### what `step` executes -/

/-- **Dispatch order.** In a state satisfying the invariant, the event taken by `step` is a
minimum of the queue: no remaining event is `<` it.  Spelled out: it has the smallest time; among
events of that time the highest priority; then the lowest weight; then the lowest asset id. -/
theorem step_min {s s' : Env} {e : Event} (h : Inv s) (hp : s.step = some (e, s')) :
    e ∈ s.events ∧ ∀ e' ∈ s.events, e'.lt e = false := by
  obtain ⟨es, heq, rfl⟩ := Env.step_some.mp hp
  refine ⟨by rw [heq]; simp, ?_⟩
  intro e' he'
  rw [heq] at he'
  rcases List.mem_cons.mp he' with rfl | he'
  · exact Event.lt_irrefl _
  · exact (heq ▸ h.sorted : SortedEv (e :: es)).head_min e' he'

theorem step_min_time {s s' : Env} {e : Event} (h : Inv s) (hp : s.step = some (e, s')) :
    ∀ e' ∈ s.events, e.time ≤ e'.time :=
  fun e' he' => Event.nlt_time ((step_min h hp).2 e' he')

theorem step_max_prio {s s' : Env} {e : Event} (h : Inv s) (hp : s.step = some (e, s')) :
    ∀ e' ∈ s.events, e'.time = e.time → e'.prio ≤ e.prio := by
  intro e' he' ht
  have := (Event.nlt_iff e e').mp ((step_min h hp).2 e' he')
  omega

/-- **Clock.** After `step` the clock equals the time of the executed event and has not
decreased (for every arithmetic). -/
theorem step_clock {s s' : Env} {e : Event} (h : Inv s) (hp : s.step = some (e, s')) :
    s'.now = e.time ∧ s.now ≤ s'.now := by
  have hf := h.future e (step_min h hp).1
  obtain ⟨es, heq, rfl⟩ := Env.step_some.mp hp
  exact ⟨rfl, hf⟩

/-- The clock only moves in `step`. -/
theorem now_apply_ne_step (ar : Arith) (s : Env) (op : EnvOp) (hne : op ≠ .step) :
    (s.apply ar op).1.now = s.now := by
  cases op with
  | sched t a act p w =>
    simp only [Env.apply]
    cases hs : s.schedule t a act p w with
    | none => rfl
    | some s' => obtain ⟨_, rfl⟩ := Env.schedule_some.mp hs; rfl
  | pause a => rfl
  | unpause a => rfl
  | cancel a => rfl
  | step => exact absurd rfl hne
  | runBegin d w =>
    simp only [Env.apply]
    cases hs : s.runBegin ar d w with
    | none => rfl
    | some s' => obtain ⟨_, rfl⟩ := Env.schedule_some.mp hs; rfl

/-- **The clock never goes backwards**, over any operation, for every arithmetic. -/
theorem clock_mono_apply (ar : Arith) {s : Env} (op : EnvOp) (h : Inv s) :
    s.now ≤ (s.apply ar op).1.now := by
  by_cases hs : op = .step
  · subst hs
    cases hp : s.step with
    | none => rw [apply_step_none ar hp]; exact Int.le_refl _
    | some p => obtain ⟨e, s'⟩ := p; rw [apply_step_some ar hp]; exact (step_clock h hp).2
  · rw [now_apply_ne_step ar s op hs]; exact Int.le_refl _

theorem clock_mono_applyAll (ar : Arith) {s : Env} (ops : List EnvOp) (h : Inv s) :
    s.now ≤ (s.applyAll ar ops).1.now := by
  induction ops generalizing s with
  | nil => exact Int.le_refl _
  | cons op ops ih =>
    simp only [Env.applyAll]
    exact Int.le_trans (clock_mono_apply ar op h) (ih (inv_apply ar op h))

/-! ### `apply`, case by case -/

/-- uids known to the environment (queued or paused). -/
def known (s : Env) : List Nat := (s.events ++ s.paused).map Event.uid

theorem known_schedule {s s' : Env} {t a : Int} {act : Nat} {p : Int} {w : Nat}
    (hs : s.schedule t a act p w = some s') :
    s'.nextUid = s.nextUid + 1 ∧ ∀ u ∈ known s', u ∈ known s ∨ s.nextUid ≤ u := by
  obtain ⟨_, rfl⟩ := Env.schedule_some.mp hs
  refine ⟨rfl, ?_⟩
  intro u hu
  simp only [known, List.map_append, List.mem_append, List.mem_map] at hu ⊢
  rcases hu with ⟨e, he, rfl⟩ | hu
  · rcases insort_mem.mp he with rfl | he
    · right; exact Nat.le_refl _
    · left; left; exact ⟨e, he, rfl⟩
  · left; right; exact hu

/-- Operations other than `step` take nothing from the queue, create only fresh uids and never
lower the uid counter. -/
theorem apply_non_step (ar : Arith) (s : Env) (op : EnvOp) (hne : op ≠ .step) :
    (s.apply ar op).2.isPop = false ∧ s.nextUid ≤ (s.apply ar op).1.nextUid ∧
      ∀ u ∈ known (s.apply ar op).1, u ∈ known s ∨ s.nextUid ≤ u := by
  cases op with
  | step => exact absurd rfl hne
  | sched t a act p w =>
    simp only [Env.apply]
    cases hs : s.schedule t a act p w with
    | none => exact ⟨rfl, Nat.le_refl _, fun u hu => Or.inl hu⟩
    | some s' =>
      have := known_schedule hs
      exact ⟨rfl, by simp only; omega, this.2⟩
  | runBegin d w =>
    simp only [Env.apply]
    cases hs : s.runBegin ar d w with
    | none => exact ⟨rfl, Nat.le_refl _, fun u hu => Or.inl hu⟩
    | some s' =>
      have := known_schedule (s := { s with terminated := false }) hs
      exact ⟨rfl, by simp only at this ⊢; omega, this.2⟩
  | pause a =>
    refine ⟨rfl, Nat.le_refl _, fun u hu => Or.inl ?_⟩
    simp only [Env.apply, Env.pause, known, List.map_append, List.mem_append, List.mem_map,
      List.mem_filter] at hu ⊢
    rcases hu with ⟨e, ⟨he, _⟩, rfl⟩ | ⟨e, he, rfl⟩ | ⟨e, ⟨e0, ⟨he0, _⟩, rfl⟩, rfl⟩
    · left; exact ⟨e, he, rfl⟩
    · right; exact ⟨e, he, rfl⟩
    · left; exact ⟨e0, he0, rfl⟩
  | unpause a =>
    refine ⟨rfl, Nat.le_refl _, fun u hu => Or.inl ?_⟩
    simp only [Env.apply, Env.unpause, foldl_insort_map, known, List.map_append, List.mem_append,
      List.mem_map, List.mem_filter] at hu ⊢
    rcases hu with ⟨e, he, rfl⟩ | ⟨e, ⟨he, _⟩, rfl⟩
    · rcases insortAll_mem.mp he with he | he
      · rcases List.mem_map.mp he with ⟨e0, he0, rfl⟩
        right; exact ⟨e0, (List.mem_filter.mp he0).1, rfl⟩
      · left; exact ⟨e, he, rfl⟩
    · right; exact ⟨e, he, rfl⟩
  | cancel a =>
    refine ⟨rfl, Nat.le_refl _, fun u hu => Or.inl ?_⟩
    simp only [Env.apply, Env.cancel, known, ← List.map_append, List.map_map] at hu ⊢
    rcases List.mem_map.mp hu with ⟨e, he, rfl⟩
    exact List.mem_map.mpr ⟨e, he, by simp⟩

/-- The event popped by a step is known before and unknown afterwards; nothing else changes in
the set of known uids. -/
theorem step_uid {s s' : Env} {e : Event} (h : Inv s) (hp : s.step = some (e, s')) :
    e.uid ∈ known s ∧ e.uid ∉ known s' ∧ s'.nextUid = s.nextUid ∧
      ∀ u ∈ known s', u ∈ known s := by
  obtain ⟨es, heq, rfl⟩ := Env.step_some.mp hp
  have hu := h.uids
  rw [heq] at hu
  simp only [List.cons_append, List.map_cons, List.nodup_cons] at hu
  refine ⟨?_, hu.1, rfl, ?_⟩
  · simp [known, heq]
  · intro u hu'
    simp only [known, heq, List.cons_append, List.map_cons, List.mem_cons]
    right; exact hu'

/-! ### an action runs at most once; a cancelled event never runs -/

/-- uids of the events taken from the queue / whose action was run, in a list of outputs. -/
def poppedUids : List EnvOut → List Nat
  | [] => []
  | .ran e :: os => e.uid :: poppedUids os
  | .skipped e :: os => e.uid :: poppedUids os
  | _ :: os => poppedUids os

def ranUids : List EnvOut → List Nat
  | [] => []
  | .ran e :: os => e.uid :: ranUids os
  | _ :: os => ranUids os

theorem poppedUids_cons_nonpop {o : EnvOut} (os : List EnvOut) (h : o.isPop = false) :
    poppedUids (o :: os) = poppedUids os := by
  cases o <;> simp_all [poppedUids, EnvOut.isPop]

theorem poppedUids_cons_pop (e : Event) (os : List EnvOut) :
    poppedUids ((if e.live then EnvOut.ran e else EnvOut.skipped e) :: os)
      = e.uid :: poppedUids os := by
  split <;> rfl

/-- Along any operation sequence, every uid popped is either known at the start or not yet
created. -/
theorem popped_known (ar : Arith) {s : Env} (ops : List EnvOp) (h : Inv s) :
    ∀ u ∈ poppedUids (s.applyAll ar ops).2, u ∈ known s ∨ s.nextUid ≤ u := by
  induction ops generalizing s with
  | nil => intro u hu; simp [Env.applyAll, poppedUids] at hu
  | cons op ops ih =>
    intro u hu
    simp only [Env.applyAll] at hu
    by_cases hst : op = .step
    · subst hst
      cases hs : s.step with
      | none =>
        rw [apply_step_none ar hs] at hu
        exact ih h u (by simpa [poppedUids] using hu)
      | some p =>
        obtain ⟨e, s'⟩ := p
        rw [apply_step_some ar hs] at hu
        simp only [poppedUids_cons_pop, List.mem_cons] at hu
        have hk := step_uid h hs
        rcases hu with rfl | hu
        · exact Or.inl hk.1
        · rcases ih (inv_step h hs) u hu with h1 | h1
          · exact Or.inl (hk.2.2.2 u h1)
          · right; omega
    · have hn := apply_non_step ar s op hst
      rw [poppedUids_cons_nonpop _ hn.1] at hu
      rcases ih (inv_apply ar op h) u hu with h1 | h1
      · exact hn.2.2 u h1
      · right; omega

/-- **No event is taken from the queue twice**, along any operation sequence from any state
satisfying the invariant. -/
theorem popped_nodup (ar : Arith) {s : Env} (ops : List EnvOp) (h : Inv s) :
    (poppedUids (s.applyAll ar ops).2).Nodup := by
  induction ops generalizing s with
  | nil => simp [Env.applyAll, poppedUids]
  | cons op ops ih =>
    simp only [Env.applyAll]
    by_cases hst : op = .step
    · subst hst
      cases hs : s.step with
      | none =>
        rw [apply_step_none ar hs]
        simpa [poppedUids] using ih h
      | some p =>
        obtain ⟨e, s'⟩ := p
        rw [apply_step_some ar hs]
        simp only [poppedUids_cons_pop, List.nodup_cons]
        have hk := step_uid h hs
        refine ⟨?_, ih (inv_step h hs)⟩
        intro hm
        rcases popped_known ar ops (inv_step h hs) _ hm with h1 | h1
        · exact hk.2.1 h1
        · have := h.fresh e (by simp [(step_min h hs).1]); omega
    · have hn := apply_non_step ar s op hst
      rw [poppedUids_cons_nonpop _ hn.1]
      exact ih (inv_apply ar op h)

theorem ranUids_sublist (os : List EnvOut) : (ranUids os).Sublist (poppedUids os) := by
  induction os with
  | nil => simp [ranUids, poppedUids]
  | cons o os ih =>
    cases o with
    | ran e => simpa [ranUids, poppedUids] using ih
    | skipped e => simpa [ranUids, poppedUids] using ih.trans (List.sublist_cons_self _ _)
    | ok => simpa [ranUids, poppedUids] using ih
    | rejected => simpa [ranUids, poppedUids] using ih
    | empty => simpa [ranUids, poppedUids] using ih

/-- **An event's action runs at most once** (uids are the identity of `Event` objects). -/
theorem ran_nodup (ar : Arith) (ops : List EnvOp) :
    (ranUids (({} : Env).applyAll ar ops).2).Nodup :=
  (popped_nodup ar ops inv_init).sublist (ranUids_sublist _)

/-- Only live (non-cancelled) events have their action run. -/
theorem ran_live (ar : Arith) (s : Env) (e : Event) :
    (s.apply ar .step).2 = .ran e → e.cancelled = false := by
  cases hs : s.step with
  | none => rw [apply_step_none ar hs]; intro h; cases h
  | some p =>
    obtain ⟨e0, s'⟩ := p
    rw [apply_step_some ar hs]
    by_cases hl : e0.live
    · simp only [hl, if_true]; intro h; cases h; simpa [Event.live] using hl
    · simp [hl]

/-! ### `run(d)`: executes everything due up to `t0 + d`, nothing later, ends at `t0 + d` -/

/-- Operations a model may issue while a run is in progress: scheduling with a priority above
`TERMINATE` (and not the environment's private terminate action), pausing / resuming /
cancelling any asset id other than the environment's internal id −1, and `step` — which the run
loop only performs while the run has not been terminated. -/
def UserOp : EnvOp → Prop
  | .sched _ _ act p _ => act ≠ terminateAct ∧ prioTerminate < p
  | .pause a => a ≠ -1
  | .unpause a => a ≠ -1
  | .cancel a => a ≠ -1
  | .step => True
  | .runBegin _ _ => False

/-- Every operation is a `UserOp`, and every `step` is taken by the run loop, i.e. in a state in
which the run has not been terminated. -/
def Guarded (ar : Arith) (s : Env) : List EnvOp → Prop
  | [] => True
  | op :: ops => UserOp op ∧ (op = .step → s.terminated = false) ∧ Guarded ar (s.apply ar op).1 ops

/-- No terminate events are around and every event has a priority above `TERMINATE`. -/
def UserState (s : Env) : Prop :=
  ∀ e ∈ s.events ++ s.paused, e.act ≠ terminateAct ∧ prioTerminate < e.prio

/-- The invariant of a run that ends at `T` and whose terminate event has uid `tu`. -/
structure RunInv (T : Int) (tu : Nat) (s : Env) : Prop where
  inv : Inv s
  user : ∀ e ∈ s.events ++ s.paused, e.act ≠ terminateAct → prioTerminate < e.prio
  pausedUser : ∀ e ∈ s.paused, e.act ≠ terminateAct
  term : ∀ e ∈ s.events, e.act = terminateAct →
    e.uid = tu ∧ e.time = T ∧ e.prio = prioTerminate ∧ e.asset = -1 ∧ e.cancelled = false
  running : s.terminated = false → (∃ e ∈ s.events, e.act = terminateAct) ∧ s.now ≤ T
  done : s.terminated = true → s.now = T ∧ ∀ e ∈ s.events, e.act ≠ terminateAct

theorem runInv_begin (ar : Arith) {s0 s1 : Env} {d : Int} {w : Nat} (h : Inv s0)
    (hu : UserState s0) (hb : s0.runBegin ar d w = some s1) :
    RunInv (ar.add s0.now d) s0.nextUid s1 := by
  have hi := inv_runBegin ar h hb
  obtain ⟨hge, rfl⟩ := Env.schedule_some.mp hb
  simp only at hge
  refine ⟨hi, ?_, ?_, ?_, ?_, ?_⟩
  · intro e he _
    simp only [List.mem_append] at he
    rcases he with he | he
    · rcases insort_mem.mp he with rfl | he
      · simp_all [Env.newEvent]
      · exact (hu e (by simp [he])).2
    · exact (hu e (by simp [he])).2
  · intro e he; exact (hu e (by simp [he])).1
  · intro e he ha
    rcases insort_mem.mp he with rfl | he
    · simp [Env.newEvent]
    · exact absurd ha (hu e (by simp [he])).1
  · intro _
    exact ⟨⟨_, insort_mem.mpr (Or.inl rfl), rfl⟩, hge⟩
  · intro ht; simp at ht

theorem runInv_apply (ar : Arith) {T : Int} {tu : Nat} {s : Env} (op : EnvOp)
    (h : RunInv T tu s) (hop : UserOp op) (hg : op = .step → s.terminated = false) :
    RunInv T tu (s.apply ar op).1 := by
  have hi := inv_apply ar op h.inv
  cases op with
  | runBegin d w => exact absurd hop (by simp [UserOp])
  | sched t a act p w =>
    simp only [Env.apply] at hi ⊢
    cases hs : s.schedule t a act p w with
    | none => exact h
    | some s' =>
      simp only [hs] at hi
      obtain ⟨hge, rfl⟩ := Env.schedule_some.mp hs
      obtain ⟨hact, hp⟩ := hop
      refine ⟨hi, ?_, h.pausedUser, ?_, ?_, ?_⟩
      · intro e he hne
        simp only [List.mem_append] at he
        rcases he with he | he
        · rcases insort_mem.mp he with rfl | he
          · exact hp
          · exact h.user e (by simp [he]) hne
        · exact h.user e (by simp [he]) hne
      · intro e he ha
        rcases insort_mem.mp he with rfl | he
        · exact absurd ha hact
        · exact h.term e he ha
      · intro ht
        obtain ⟨⟨e, he, ha⟩, hn⟩ := h.running ht
        exact ⟨⟨e, insort_mem.mpr (Or.inr he), ha⟩, hn⟩
      · intro ht
        obtain ⟨hn, hne⟩ := h.done ht
        refine ⟨hn, ?_⟩
        intro e he
        rcases insort_mem.mp he with rfl | he
        · exact hact
        · exact hne e he
  | pause a =>
    have ha : a ≠ -1 := hop
    simp only [Env.apply, Env.pause] at hi ⊢
    refine ⟨hi, ?_, ?_, ?_, ?_, ?_⟩
    · intro e he hne
      simp only [List.mem_append, List.mem_filter, List.mem_map] at he
      rcases he with ⟨he, _⟩ | he | ⟨e0, ⟨he0, _⟩, rfl⟩
      · exact h.user e (by simp [he]) hne
      · exact h.user e (by simp [he]) hne
      · exact h.user e0 (by simp [he0]) hne
    · intro e he
      simp only [List.mem_append, List.mem_filter, List.mem_map] at he
      rcases he with he | ⟨e0, ⟨he0, hm⟩, rfl⟩
      · exact h.pausedUser e he
      · intro hact
        have := (h.term e0 he0 hact).2.2.2.1
        simp only [beq_iff_eq] at hm
        omega
    · intro e he hact
      exact h.term e (List.mem_filter.mp he).1 hact
    · intro ht
      obtain ⟨⟨e, he, hact⟩, hn⟩ := h.running ht
      refine ⟨⟨e, List.mem_filter.mpr ⟨he, ?_⟩, hact⟩, hn⟩
      have := (h.term e he hact).2.2.2.1
      simp only [Bool.not_eq_eq_eq_not, Bool.not_true, beq_eq_false_iff_ne, ne_eq]
      omega
    · intro ht
      obtain ⟨hn, hne⟩ := h.done ht
      exact ⟨hn, fun e he => hne e (List.mem_filter.mp he).1⟩
  | unpause a =>
    simp only [Env.apply, Env.unpause, foldl_insort_map] at hi ⊢
    refine ⟨hi, ?_, ?_, ?_, ?_, ?_⟩
    · intro e he hne
      simp only [List.mem_append, List.mem_filter] at he
      rcases he with he | ⟨he, _⟩
      · rcases insortAll_mem.mp he with he | he
        · rcases List.mem_map.mp he with ⟨e0, he0, rfl⟩
          exact h.user e0 (by simp [(List.mem_filter.mp he0).1]) hne
        · exact h.user e (by simp [he]) hne
      · exact h.user e (by simp [he]) hne
    · intro e he; exact h.pausedUser e (List.mem_filter.mp he).1
    · intro e he hact
      rcases insortAll_mem.mp he with he | he
      · rcases List.mem_map.mp he with ⟨e0, he0, rfl⟩
        exact absurd hact (h.pausedUser e0 (List.mem_filter.mp he0).1)
      · exact h.term e he hact
    · intro ht
      obtain ⟨⟨e, he, hact⟩, hn⟩ := h.running ht
      exact ⟨⟨e, insortAll_mem.mpr (Or.inr he), hact⟩, hn⟩
    · intro ht
      obtain ⟨hn, hne⟩ := h.done ht
      refine ⟨hn, ?_⟩
      intro e he
      rcases insortAll_mem.mp he with he | he
      · rcases List.mem_map.mp he with ⟨e0, he0, rfl⟩
        exact h.pausedUser e0 (List.mem_filter.mp he0).1
      · exact hne e he
  | cancel a =>
    have ha : a ≠ -1 := hop
    simp only [Env.apply, Env.cancel] at hi ⊢
    refine ⟨hi, ?_, ?_, ?_, ?_, ?_⟩
    · intro e he hne
      simp only [← List.map_append] at he
      rcases List.mem_map.mp he with ⟨e0, he0, rfl⟩
      simpa using h.user e0 he0 (by simpa using hne)
    · intro e he
      rcases List.mem_map.mp he with ⟨e0, he0, rfl⟩
      simpa using h.pausedUser e0 he0
    · intro e he hact
      rcases List.mem_map.mp he with ⟨e0, he0, rfl⟩
      have := h.term e0 he0 (by simpa using hact)
      simp only [Event.cancelIf_uid, Event.cancelIf_time, Event.cancelIf_prio,
        Event.cancelIf_asset, Event.cancelIf_cancelled, this, Bool.false_or, beq_eq_false_iff_ne,
        ne_eq, true_and]
      omega
    · intro ht
      obtain ⟨⟨e, he, hact⟩, hn⟩ := h.running ht
      exact ⟨⟨_, List.mem_map.mpr ⟨e, he, rfl⟩, by simpa using hact⟩, hn⟩
    · intro ht
      obtain ⟨hn, hne⟩ := h.done ht
      refine ⟨hn, ?_⟩
      intro e he
      rcases List.mem_map.mp he with ⟨e0, he0, rfl⟩
      simpa using hne e0 he0
  | step =>
    have hrun := hg rfl
    cases hs : s.step with
    | none => rw [apply_step_none ar hs]; exact h
    | some p =>
      obtain ⟨e, s'⟩ := p
      rw [apply_step_some ar hs] at hi ⊢
      obtain ⟨es, heq, rfl⟩ := Env.step_some.mp hs
      obtain ⟨⟨te, hte, htact⟩, hnow⟩ := h.running hrun
      have htt := h.term te hte htact
      have huids := h.inv.uids
      rw [heq] at huids
      simp only [List.cons_append, List.map_cons, List.nodup_cons, List.map_append,
        List.mem_append, List.mem_map] at huids
      have hsorted : SortedEv (e :: es) := heq ▸ h.inv.sorted
      refine ⟨hi, ?_, h.pausedUser, ?_, ?_, ?_⟩
      · intro e' he' hne
        refine h.user e' ?_ hne
        rw [heq]
        simp only [List.mem_append] at he' ⊢
        rcases he' with he' | he'
        · left; exact List.mem_cons_of_mem _ he'
        · right; exact he'
      · intro e' he' hact
        exact h.term e' (by rw [heq]; exact List.mem_cons_of_mem _ he') hact
      · intro ht
        simp only [hrun, Bool.false_or, Bool.and_eq_false_imp] at ht
        -- the popped event is not the (live) terminate event
        have hne : e.act ≠ terminateAct := by
          intro hact
          have hc := (h.term e (by rw [heq]; simp) hact).2.2.2.2
          have := ht (by simp [Event.live, hc])
          simp [hact] at this
        have hte' : te ∈ es := by
          rw [heq] at hte
          rcases List.mem_cons.mp hte with rfl | hte
          · exact absurd htact hne
          · exact hte
        refine ⟨⟨te, hte', htact⟩, ?_⟩
        have := Event.nlt_time (hsorted.head_min te hte')
        simp only; omega
      · intro ht
        simp only [hrun, Bool.false_or, Bool.and_eq_true, beq_iff_eq] at ht
        have hte' := h.term e (by rw [heq]; simp) ht.2
        refine ⟨hte'.2.1, ?_⟩
        intro e' he' hact
        have := h.term e' (by rw [heq]; exact List.mem_cons_of_mem _ he') hact
        exact huids.1 (Or.inl ⟨e', he', by rw [this.1, hte'.1]⟩)

theorem runInv_applyAll (ar : Arith) {T : Int} {tu : Nat} {s : Env} (ops : List EnvOp)
    (h : RunInv T tu s) (hg : Guarded ar s ops) : RunInv T tu (s.applyAll ar ops).1 := by
  induction ops generalizing s with
  | nil => exact h
  | cons op ops ih =>
    simp only [Env.applyAll]
    exact ih (runInv_apply ar op h hg.1 hg.2.1) hg.2.2

/-- Events executed by a guarded step are due no later than `T`; the step that executes the
terminate event leaves only events due strictly later than `T` in the queue. -/
theorem run_step {T : Int} {tu : Nat} {s s' : Env} {e : Event}
    (h : RunInv T tu s) (hrun : s.terminated = false) (hs : s.step = some (e, s')) :
    e.time ≤ T ∧ (s'.terminated = true → ∀ e' ∈ s'.events, T < e'.time) := by
  obtain ⟨es, heq, rfl⟩ := Env.step_some.mp hs
  obtain ⟨⟨te, hte, htact⟩, hnow⟩ := h.running hrun
  have htt := h.term te hte htact
  have hsorted : SortedEv (e :: es) := heq ▸ h.inv.sorted
  have huids := h.inv.uids
  rw [heq] at huids
  simp only [List.cons_append, List.map_cons, List.nodup_cons, List.map_append,
    List.mem_append, List.mem_map] at huids
  constructor
  · rw [heq] at hte
    rcases List.mem_cons.mp hte with rfl | hte
    · omega
    · have := Event.nlt_time (hsorted.head_min te hte); omega
  · intro ht e' he'
    simp only [hrun, Bool.false_or, Bool.and_eq_true, beq_iff_eq] at ht
    have hte' := h.term e (by rw [heq]; simp) ht.2
    have hne : e'.act ≠ terminateAct := by
      intro hact
      have := h.term e' (by rw [heq]; exact List.mem_cons_of_mem _ he') hact
      exact huids.1 (Or.inl ⟨e', he', by rw [this.1, hte'.1]⟩)
    have hp := h.user e' (by rw [heq]; simp [he']) hne
    have := (Event.nlt_iff e e').mp (hsorted.head_min e' he')
    simp only [prioTerminate] at hp hte'
    omega

/-- **`run(d)`** started in a state without stale terminate events, whatever the model does
while it runs (`ops`, issued by event actions between the loop's steps):

* every event whose action is run is due no later than `t0 + d`;
* while the run has not been terminated the loop condition stays true (the queue is not empty),
  so the loop cannot stop early, and the clock is at most `t0 + d`;
* once terminated, the clock is exactly `t0 + d`;
* and (`run_step`) the terminating step leaves no event due at or before `t0 + d` in the queue:
  everything due up to `t0 + d`, including events created while running, has been taken. -/
theorem run_spec (ar : Arith) {s0 s1 : Env} {d : Int} {w : Nat} (h : Inv s0) (hu : UserState s0)
    (hb : s0.runBegin ar d w = some s1) (ops : List EnvOp) (hg : Guarded ar s1 ops) :
    let T := ar.add s0.now d
    let r := s1.applyAll ar ops
    (r.1.terminated = false → r.1.running = true ∧ r.1.now ≤ T) ∧
    (r.1.terminated = true → r.1.now = T) := by
  intro T r
  have hr := runInv_applyAll ar ops (runInv_begin ar h hu hb) hg
  constructor
  · intro ht
    obtain ⟨⟨e, he, _⟩, hn⟩ := hr.running ht
    refine ⟨?_, hn⟩
    simp only [Env.running, ht, Bool.not_false, Bool.and_true, Bool.not_eq_eq_eq_not,
      Bool.not_true, List.isEmpty_eq_false_iff]
    intro hnil
    have : e ∈ r.1.events := he
    rw [hnil] at this; cases this
  · intro ht; exact (hr.done ht).1

/-- Every action run during a run is due no later than `t0 + d`. -/
theorem run_ran_due (ar : Arith) {T : Int} {tu : Nat} {s : Env} (ops : List EnvOp)
    (h : RunInv T tu s) (hg : Guarded ar s ops) :
    ∀ e, EnvOut.ran e ∈ (s.applyAll ar ops).2 → e.time ≤ T := by
  induction ops generalizing s with
  | nil => intro e he; simp [Env.applyAll] at he
  | cons op ops ih =>
    intro e he
    simp only [Env.applyAll, List.mem_cons] at he
    have hnext := runInv_apply ar op h hg.1 hg.2.1
    rcases he with he | he
    · by_cases hst : op = .step
      · subst hst
        cases hs : s.step with
        | none => rw [apply_step_none ar hs] at he; cases he
        | some p =>
          obtain ⟨e0, s'⟩ := p
          rw [apply_step_some ar hs] at he
          have := (run_step h (hg.2.1 rfl) hs).1
          split at he <;> cases he
          exact this
      · have := (apply_non_step ar s op hst).1
        rw [← he] at this; simp [EnvOut.isPop] at this
    · exact ih hnext hg.2.2 e he

/-! ### non-vacuity: a concrete reachable state with equal times, fractional priority, a paused
event and a rejected request -/

example :
    let ops : List EnvOp :=
      [.sched 16 1 5 28 3, .sched 16 2 6 19 1, .sched 16 3 7 28 3, .pause 2, .step,
       .sched 3 1 9 20 0, .unpause 2, .step, .step]
    (({} : Env).applyAll Arith.exact ops).2.map (fun o => match o with
        | .ran e => (e.uid : Int) | .rejected => -1 | _ => -2)
      = [-2, -2, -2, -2, 0, -1, -2, 2, 1] := by decide

end C01
end SimProc
