/-
C06W — the closed-world timer invariant behind C06 and C13.

"Every part accepted by a handler or processor is released from processing after exactly the cycle
time in effect when it was accepted of OPERATIONAL time: maintenance shutdown time is added on top,
never lost, and a failure ends processing by losing the part rather than finishing it.  A device
works on one part at a time, no part is finished early, late or twice."  and  "At every instant
uptime equals the total time the processor was operational and utilization the total time it spent
processing parts."

Closed-world theorems about `SimProc/Model/Floor.lean` + `World.lean`: they hold in EVERY state
reachable from a fresh, statically well-formed world by initialisation and any number of steps of
the event loop — every topology, every parameter choice, every script (in the static class), every
tie-break weight.

* `Timer w` (the invariant, spelled out in `timer_spec`): a handler / processor / sink with a part
  in process has an empty output slot and EXACTLY ONE live finish event, carrying its asset id —
  pending (and not before the clock) iff the device is operational, paused iff it is shut down; a
  device with nothing in process has NO live finish event; buffers, batchers and flow controllers
  never have one.  For processors it contains the accounting invariant `C13.UpInv`.
* `WI w` = `Timer` + the event-queue invariants of C01/C07 + "the error flag is not a failed
  assertion" + the static conditions.  `wi_init` (it holds initially), the per-function theorems
  `timer_*`, `timer_step`, `timer_runLoop`, `timer_reachable`.
* Consequences: `assertions_unreachable` (the model's internal assertion errors — the formal version
  of the F6 defect "a stale timer finishes a part twice/late" — cannot occur; `errors_characterised`
  lists the only error strings that can), `upInv_reachable` + `uptime_integrates` /
  `utilization_integrates` (C13 at every instant), `remaining_rate` (the remaining work of a timer
  decreases by exactly the elapsed time per step while the device is operational and not at all
  while it is shut down, whatever happens in the step), `finish_fires_at_zero`.

Static class (`Static'`): `Static` of C02 (scripts without rewire/create, wiring closed under
reachability, failures only for non-sinks), asset ids of devices distinct (what `addDev`
establishes), maintenance targets that are devices are processors, scripts do not pause / resume /
cancel the asset id of a device directly, no failure of a non-processor is pending (`applyOp`
rejects `schedule_failure` on other kinds).  Machinery: `SimProc/Proofs/C06W*.lean`.
-/
import SimProc.Proofs.C06WRate
import SimProc.Props.C02
import SimProc.Props.C06
import SimProc.Props.C13

namespace SimProc
namespace C06W
open World FloorCoreL
open C02V (Static)

/-! ### the static class and the initial conditions -/

/-- Statically well-formed worlds for the timer invariant. -/
structure Static' (w : World) : Prop where
  /-- `Static` of C02: scripts without rewire/create, failures only for non-sinks, closed wiring -/
  static : Static w
  /-- asset ids of distinct devices are distinct (`addDev`: registration index + 1) -/
  aids : (w.devs.map (·.aid)).Nodup
  /-- maintenance targets that are devices are processors -/
  targets : TargetsProc w
  /-- scripts do not pause / resume / cancel the asset id of a device directly -/
  noPause : ScriptsNoPause w
  /-- no failure of a device that is not a processor is pending -/
  noBadFail : NoBadFail w

/-- A world before the simulation: empty slots, processors operational as constructed, no finish
event pending, a consistent event queue, no error. -/
structure Init (w : World) : Prop where
  slots : ∀ d ∈ w.devs, d.part = none ∧ d.output = none
  procs : ∀ d ∈ w.devs, d.kind = .processor →
    d.shutDown = false ∧ d.lastRestore.isSome = true ∧ d.lastUseStart = none
  noFinish : ∀ e ∈ w.env.events ++ w.env.paused, e.live = true → e.act % 16 ≠ 2
  queue : C01.Inv w.env
  paused : C07.PInv w.env
  err : w.error = none

/-- `Fresh` (C02) gives the empty slots. -/
theorem slots_of_fresh {w : World} (h : C02.Fresh w) : ∀ d ∈ w.devs, d.part = none ∧ d.output = none := by
  intro d hd
  have := h.2.2.2.2 d hd
  unfold C02.held at this
  cases hp : d.part <;> cases ho : d.output <;> simp [hp, ho] at this ⊢

theorem aidsOK_of_nodup {w : World} (h : (w.devs.map (·.aid)).Nodup) : AidsOK w := by
  intro x y hx hy hne he
  have hx' : x < (w.devs.map (·.aid)).length := by simpa using hx
  have hy' : y < (w.devs.map (·.aid)).length := by simpa using hy
  have e1 : (w.devs.map (·.aid))[x] = (w.dev x).aid := by
    simp [World.dev, List.getD_eq_getElem?_getD, hx]
  have e2 : (w.devs.map (·.aid))[y] = (w.dev y).aid := by
    simp [World.dev, List.getD_eq_getElem?_getD, hy]
  have hp := List.pairwise_iff_getElem.mp h
  rcases Nat.lt_or_gt_of_ne hne with hlt | hlt
  · exact hp x y hx' hy' hlt (by rw [e1, e2, he])
  · exact hp y x hy' hx' hlt (by rw [e1, e2, he])

theorem dev_mem_or_default (w : World) (x : Nat) : w.dev x ∈ w.devs ∨ w.dev x = default := by
  by_cases hx : x < w.devs.length
  · left
    have : w.dev x = w.devs[x] := by simp [World.dev, List.getD_eq_getElem?_getD, hx]
    rw [this]; exact List.getElem_mem hx
  · right; exact dev_of_length_le (Nat.le_of_not_lt hx)

/-- **(a) The invariant holds initially.** -/
theorem wi_init {w : World} (hs : Static' w) (hi : Init w) : WI w ∧ ProcsUp w := by
  have hslots : ∀ x, (w.dev x).part = none ∧ (w.dev x).output = none := by
    intro x
    rcases dev_mem_or_default w x with h | h
    · exact hi.slots _ h
    · rw [h]; exact ⟨rfl, rfl⟩
  have hprocs : ∀ x, (w.dev x).kind = .processor →
      (w.dev x).shutDown = false ∧ (w.dev x).lastRestore.isSome = true ∧ (w.dev x).lastUseStart = none := by
    intro x hk
    rcases dev_mem_or_default w x with h | h
    · exact hi.procs _ h hk
    · rw [h] at hk; cases hk
  have hfin : ∀ x, finE w.env x = [] ∧ finP w.env x = [] := by
    intro x
    have key : ∀ l : List Event, (∀ e ∈ l, e ∈ w.env.events ++ w.env.paused) →
        l.filter (isFin x) = [] := by
      intro l hl
      apply filter_eq_nil_of_forall
      intro e he
      cases hf : isFin x e with
      | false => rfl
      | true =>
        obtain ⟨h1, h2⟩ := isFin_true.mp hf
        have := hi.noFinish e (hl e he) h1
        rw [h2, finAct_eq] at this
        omega
    exact ⟨key _ (fun e he => List.mem_append.mpr (Or.inl he)),
      key _ (fun e he => List.mem_append.mpr (Or.inr he))⟩
  refine ⟨⟨⟨?_, aidsOK_of_nodup hs.aids, ⟨hi.queue, hi.paused⟩, by rw [hi.err]; rfl⟩,
    hs.static, hs.targets, hs.noPause, hs.noBadFail⟩, fun x hk => (hprocs x hk).2.1⟩
  intro x _
  refine timerAt_idle (hfin x).1 (hfin x).2 ?_ ?_
  · simp only [tdm, (hslots x).1]; split <;> rfl
  · intro hk
    obtain ⟨h1, h2, h3⟩ := hprocs x hk
    simp [tdm, h1, h2, h3]

/-! ### (b)–(d) preservation, per function -/

/-- `_accept_part` of any handler-like device `x` that exists (a timing device: with both slots
empty and operational — what `give` checks): the invariant is preserved; the timer of `x` is
started (or the part is finished at once), every other timer is untouched (`Keep`). -/
theorem timer_acceptPart {w : World} {x : Nat} (h : FI w) (p : Nat) (hx : x < w.devs.length)
    (hl : isHandlerLike (w.dev x).kind = true) (hc : w.canAcceptBasic x p = true) :
    FI (w.acceptPart x p) ∧ Keep w (w.acceptPart x p) :=
  good_acceptPart h p hx hl (fun hT => canAccept_T hT hc)

/-- `_finish_cycle` of a timing device in the state in which the event loop runs it — right after
its (only) live finish event was popped (`Mid`): the part moves on, the invariant holds again. -/
theorem timer_finishCycle {w : World} {x : Nat} (h : Mid w x) :
    FI (w.finishCycle x) ∧ Keep w (w.finishCycle x) :=
  ⟨(loc_finishCycle h).fi_of_mid h, (loc_finishCycle h).keep⟩

/-- A maintenance shutdown of a processor pauses its timer (and nothing else); remaining work is
unchanged (`Keep.rem`). -/
theorem timer_shutdown {w : World} {x : Nat} (h : FI w) (hk : (w.dev x).kind = .processor) :
    FI (w.shutdownDev x false none) ∧ Keep w (w.shutdownDev x false none) :=
  (loc_shutdown h hk).good h

/-- A failure of a processor cancels its timer and drops the part. -/
theorem timer_fail {w : World} {x : Nat} (h : FI w) (hk : (w.dev x).kind = .processor) :
    FI (w.failDev x) ∧ Keep w (w.failDev x) :=
  (loc_failDev h hk).good h

/-- The restoration of a processor resumes its timer with the remaining work it had. -/
theorem timer_restore {w : World} {x : Nat} (h : FI w) (hk : (w.dev x).kind = .processor) :
    FI (w.restoreDev x) ∧ Keep w (w.restoreDev x) :=
  (loc_restoreDev h hk).good h

/-- A hand-over (`_pass_part_downstream` of any device `x` whose reachable receivers exist). -/
theorem timer_passPart {w : World} (x : Nat) (h : FI w) (hg : C02V.GiveOK w x) :
    FI (w.passPart x) ∧ Keep w (w.passPart x) :=
  good_passPart w x h hg

/-- Notifications only add hand-over attempts: a frame. -/
theorem timer_notify {w : World} (x : Nat) (h : FI w) : FI (w.notify x) ∧ Keep w (w.notify x) :=
  (fr_notify (X := None_) w x).good h

/-- Every scripted operation of the static class. -/
theorem timer_applyOp {w : World} (h : WI w) (op : Op) (h1 : C02V.OpStatic w op) (h2 : OpNoPause w op) :
    WI (w.applyOp op).1 ∧ Keep w (w.applyOp op).1 :=
  ⟨h.of_ws (ws_applyOp h op h1 h2), (ws_applyOp h op h1 h2).good.2⟩

theorem timer_rmCheck {w : World} (h : WI w) : WI w.rmCheck ∧ Keep w w.rmCheck :=
  ⟨h.of_ws (ws_rmCheck h), (ws_rmCheck h).good.2⟩

theorem timer_startWork {w : World} (h : WI w) (m o : Nat) :
    WI (w.startWork m o) ∧ Keep w (w.startWork m o) :=
  ⟨h.of_ws (ws_startWork h m o), (ws_startWork h m o).good.2⟩

theorem timer_finishWork {w : World} (h : WI w) (m o : Nat) :
    WI (w.finishWork m o) ∧ Keep w (w.finishWork m o) :=
  ⟨h.of_ws (ws_finishWork h m o), (ws_finishWork h m o).good.2⟩

/-- **(d) One step of the event loop preserves the invariant.** -/
theorem timer_step {w w' : World} {e : Event} (h : WI w) (hst : w.step = some (e, w')) : WI w' :=
  wi_step h hst

theorem timer_runLoop (n : Nat) (w : World) (h : WI w) : WI (runLoop n w) := wi_runLoop n w h

theorem timer_simulateInit {w : World} (h : WI w) (hp : ProcsUp w) : WI w.simulateInit :=
  wi_simulateInit h hp

/-- **The invariant holds in every reachable state**: initialise, then run the event loop with
any fuel. -/
theorem timer_reachable (n : Nat) (w : World) (hs : Static' w) (hi : Init w) :
    WI (runLoop n w.simulateInit) := by
  obtain ⟨h, hp⟩ := wi_init hs hi
  exact wi_runLoop n _ (wi_simulateInit h hp)

/-! ### the invariant in plain words -/

/-- `Timer` spelled out on the model's own fields, for a handler, processor or sink `x` (any
index; `finE`/`finP` are the live events with action `finishCycle x` in `env.events`/`env.paused`):

* a part in process: the output slot is empty, and EXACTLY ONE live finish event of `x` exists in
  `events ++ paused`; it carries the asset id of `x`; it is pending and not before the clock if `x` is
  operational, paused if `x` is shut down;
* nothing in process: NO live finish event of `x` exists. -/
theorem timer_spec {w : World} (h : WI w) (x : Nat) (hT : isT (w.dev x).kind = true) :
    (∀ p, (w.dev x).part = some p →
      (w.dev x).output = none ∧
      (w.operational x = true →
        ∃ e, finE w.env x = [e] ∧ finP w.env x = [] ∧ e ∈ w.env.events ∧ e.cancelled = false ∧
          e.act = (Action.finishCycle x).toNat ∧ e.asset = (w.dev x).aid ∧ w.now ≤ e.time) ∧
      (w.operational x = false →
        ∃ e, finE w.env x = [] ∧ finP w.env x = [e] ∧ e ∈ w.env.paused ∧ e.cancelled = false ∧
          e.act = (Action.finishCycle x).toNat ∧ e.asset = (w.dev x).aid ∧
          (w.dev x).kind = .processor ∧ (w.dev x).shutDown = true)) ∧
    ((w.dev x).part = none → finE w.env x = [] ∧ finP w.env x = []) := by
  have ht := h.fi.timer x (isT_ne_source hT)
  refine ⟨?_, fun hp => ht.idle (by rw [tdm_part hT]; exact hp)⟩
  intro p hp
  obtain ⟨ho, hb⟩ := ht.busy p (by rw [tdm_part hT]; exact hp)
  refine ⟨by rw [← tdm_output hT]; exact ho, ?_, ?_⟩
  · intro hop
    rw [operational_eq] at hop
    rw [hop] at hb
    simp only [if_true] at hb
    obtain ⟨e, he⟩ := length_le_one_cases _ hb.1
    have hm : e ∈ finE w.env x := by rw [he]; exact List.mem_singleton.mpr rfl
    obtain ⟨h1, h2, h3⟩ := mem_finE.mp hm
    exact ⟨e, he, hb.2, h1, h2, h3, ht.asset e (List.mem_append.mpr (Or.inl hm)),
      h.fi.ei.1.future e h1⟩
  · intro hop
    rw [operational_eq] at hop
    rw [hop] at hb
    simp only [Bool.false_eq_true, if_false] at hb
    obtain ⟨e, he⟩ := length_le_one_cases _ hb.2
    have hm : e ∈ finP w.env x := by rw [he]; exact List.mem_singleton.mpr rfl
    obtain ⟨h1, h2, h3⟩ := mem_finP.mp hm
    have hk : (w.dev x).kind = .processor ∧ (w.dev x).shutDown = true := by
      unfold opT at hop
      cases hk : (w.dev x).kind <;> simp [tdm, hk] at hop
      exact ⟨rfl, hop⟩
    exact ⟨e, hb.1, he, h1, h2, h3, ht.asset e (List.mem_append.mpr (Or.inr hm)), hk.1, hk.2⟩

/-- Devices that do not time their work (buffers, batchers, gates, group controllers) never have a
live finish event. -/
theorem no_timer_elsewhere {w : World} (h : WI w) (x : Nat) (hT : isT (w.dev x).kind = false)
    (hk : (w.dev x).kind ≠ .source) : finE w.env x = [] ∧ finP w.env x = [] :=
  (h.fi.timer x hk).idle (by simp [tdm, hT])

/-! ### consequences -/

/-- **The model's internal assertion errors are unreachable** (the formal version of "no part is
finished twice / late by a stale timer", defect F6): in every state reachable from a fresh
statically well-formed world the error flag is none of `assert-operational`,
`assert-input-missing`, `assert-output-full`. -/
theorem assertions_unreachable (n : Nat) (w : World) (hs : Static' w) (hi : Init w) :
    (runLoop n w.simulateInit).error ≠ some "assert-operational" ∧
    (runLoop n w.simulateInit).error ≠ some "assert-input-missing" ∧
    (runLoop n w.simulateInit).error ≠ some "assert-output-full" := by
  have h := (timer_reachable n w hs hi).fi.err
  generalize (runLoop n w.simulateInit).error = e at h
  refine ⟨?_, ?_, ?_⟩ <;> (intro he; rw [he] at h; revert h; decide)

/-- The only errors that can occur in the static class: running out of loop/notification fuel, a
library request in the past (`sched-past`: negative buffer delays, timetable durations, sensor
intervals, work-order durations are not excluded by the static class), an exception of the resource
manager, and the three scripted/unknown-order conditions. -/
theorem errors_characterised (n : Nat) (w : World) (hs : Static' w) (hi : Init w) :
    (runLoop n w.simulateInit).error = none ∨
    ∃ m ∈ allowedErrs, (runLoop n w.simulateInit).error = some m := by
  have h := (timer_reachable n w hs hi).fi.err
  generalize (runLoop n w.simulateInit).error = e at h
  cases e with
  | none => exact Or.inl rfl
  | some m => exact Or.inr ⟨m, by simpa [okErr] using h, rfl⟩

/-- The accounting invariant of C13 is part of the invariant … -/
theorem upInv_of_wi {w : World} (h : WI w) (x : Nat) (hk : (w.dev x).kind = .processor) :
    C13.UpInv w x := by
  have hT : isT (w.dev x).kind = true := by rw [hk]; rfl
  have hu := (h.fi.timer x (isT_ne_source hT)).up hk
  have hp : (tdm (w.dev x)).part = (w.dev x).part := tdm_part hT
  rw [hp] at hu
  exact ⟨hu.1, hu.2⟩

/-- **… so it holds for every processor in every reachable state** (C13 item: needs that machines
are operational when initialised — `Init.procs`). -/
theorem upInv_reachable (n : Nat) (w : World) (hs : Static' w) (hi : Init w) (x : Nat)
    (hk : ((runLoop n w.simulateInit).dev x).kind = .processor) :
    C13.UpInv (runLoop n w.simulateInit) x :=
  upInv_of_wi (timer_reachable n w hs hi) x hk

/-- At every step of the loop, `uptime` of a processor grows by the time that passes iff the
processor is operational: `uptime` integrates the operational indicator over any run
(`C13.uptime_rate_step` applies at every instant; the action of the event does not change it:
`C13.*_continuous`). -/
theorem uptime_integrates {w : World} (h : WI w) {e : Event} {env' : Env}
    (hst : w.env.step = some (e, env')) (x : Nat) (hk : (w.dev x).kind = .processor) :
    C13.uptimeAt ({ w with env := env' } : World) x =
      C13.uptimeAt w x + (if (w.dev x).shutDown = false then e.time - w.now else 0) :=
  C13.uptime_rate_step w hst x (upInv_of_wi h x hk)

/-- … and `utilization_time` by the time that passes iff it is operational with a part in
process. -/
theorem utilization_integrates {w : World} (h : WI w) {e : Event} {env' : Env}
    (hst : w.env.step = some (e, env')) (x : Nat) (hk : (w.dev x).kind = .processor) :
    C13.utilAt ({ w with env := env' } : World) x =
      C13.utilAt w x +
        (if (w.dev x).part.isSome = true ∧ (w.dev x).shutDown = false then e.time - w.now else 0) :=
  (C13.utilization_rate_step w hst x (upInv_of_wi h x hk)).1

/-- **Exactness, as rates.**  `rem w.env x` is the list of timers of `x`: (uid of the finish
event, remaining work), remaining work = due time − clock for a pending event, due time − pause
time for a paused one.  In the invariant it has at most one element.  One step of the loop — pop,
advance the clock by `e.time − now`, run the action, whatever it is (shutdown, restoration,
hand-overs, scripts, other machines' events) — changes the remaining work of a timer that is still
there afterwards (same uid) by exactly: minus the elapsed time if the device was operational, 0 if
it was shut down.  New timers have uids not below the old counter; accepted parts start with
remaining work `max 0 (cycle + offset)` (`C06.accept_schedules_finish`). -/
theorem remaining_rate {w w' : World} {e : Event} (h : WI w) (hst : w.step = some (e, w')) (x : Nat)
    (hk : (w.dev x).kind ≠ .source) {u : Nat} {r r' : Int} (h0 : rem w.env x = [(u, r)])
    (h1 : (u, r') ∈ rem w'.env x) :
    r' = r - (if w.operational x then e.time - w.now else 0) := by
  have hu : u < w.env.nextUid :=
    rem_uid_lt h.fi.ei (x := x) (r := r) (by rw [h0]; exact List.mem_singleton.mpr rfl)
  obtain ⟨r0, hm, hr⟩ := rem_step h hst x hk h1 hu
  rw [h0] at hm
  simp only [List.mem_singleton, Prod.mk.injEq] at hm
  rw [hr, hm.2]

/-- The timer starts with the cycle time in effect at acceptance: when a handler or processor `x`
accepts part `p` with a positive delay `c = max 0 (cycle + offset)` (as the receive callbacks left
them, `C06.acceptDelay_spec`), its one timer afterwards is the new event (uid = the old counter)
with remaining work exactly `c`.  Together with `remaining_rate` and `finish_at_zero`: the part is
released after exactly `c` of operational time. -/
theorem accept_starts_timer {w : World} (h : WI w) {x : Nat} (p : Nat) (hx : x < w.devs.length)
    (hk : (w.dev x).kind = .processor ∨ (w.dev x).kind = .handler)
    (hacc : w.canAcceptBasic x p = true) (hc : 0 < w.acceptDelay x p) :
    rem (w.acceptPart x p).env x = [(w.env.nextUid, w.acceptDelay x p)] := by
  have hT : isT (w.dev x).kind = true := by rcases hk with hk | hk <;> rw [hk] <;> rfl
  obtain ⟨hp, _, _⟩ := canAccept_T hT hacc
  have hi := (h.fi.timer x (isT_ne_source hT)).idle (by rw [tdm_part hT]; exact hp)
  obtain ⟨henv, _⟩ := C06.accept_schedules_finish w p hx hk hacc hc
  unfold rem finE finP
  rw [henv]
  simp only []
  have h1 : (insort
      { uid := w.env.nextUid, time := w.now + w.acceptDelay x p, prio := pFinish,
        weight := weightOf w.seed w.wmod (w.now + w.acceptDelay x p) (w.dev x).aid
          (Action.finishCycle x).toNat pFinish,
        asset := (w.dev x).aid, act := (Action.finishCycle x).toNat, pausedAt := none,
        cancelled := false } w.env.events).filter (isFin x) = [_] :=
    filter_insort_pos_nil _ _ _ (by simp [isFin, Event.live, finAct]) hi.1
  rw [h1]
  have h2 : w.env.paused.filter (isFin x) = [] := hi.2
  rw [h2]
  simp only [List.map_cons, List.map_nil, List.append_nil]
  congr 2
  show w.now + w.acceptDelay x p - w.now = _
  omega

/-- Timers are never duplicated: in every state of the invariant a device has at most one. -/
theorem rem_length_le_one {w : World} (h : WI w) (x : Nat) (hk : (w.dev x).kind ≠ .source) :
    (rem w.env x).length ≤ 1 := by
  have ht := h.fi.timer x hk
  unfold rem
  cases hp : (tdm (w.dev x)).part with
  | none => rw [(ht.idle hp).1, (ht.idle hp).2]; simp
  | some p =>
    have hb := (ht.busy p hp).2
    split at hb
    · rw [hb.2]; simp [hb.1]
    · rw [hb.1]; simp [hb.2]

/-- The finish event fires exactly when the remaining work is 0 (see `finish_fires_at_zero` in
`Proofs/C06WRate.lean`): when the live finish event `e` of `x` is popped, `rem = [(e.uid, e.time −
now)]`, the device is operational with a part in process and a free output slot — so the
assertions of `_finish_cycle` hold. -/
theorem finish_at_zero {w : World} (h : WI w) {e : Event} {env' : Env}
    (henv : w.env.step = some (e, env')) {x : Nat} (hl : e.live = true)
    (ha : e.act = (Action.finishCycle x).toNat) (hk : (w.dev x).kind ≠ .source) :
    rem w.env x = [(e.uid, e.time - w.now)] ∧ w.operational x = true ∧
    (w.dev x).part.isSome = true ∧ (w.dev x).output = none :=
  let ⟨a, b, c, d, _⟩ := finish_fires_at_zero h henv hl ha hk
  ⟨a, b, c, d⟩


/-! ### non-vacuity -/

instance (w : World) (op : Op) : Decidable (OpNoPause w op) := by
  cases op <;> simp only [OpNoPause] <;> infer_instance

instance (w : World) : Decidable (ScriptsNoPause w) := by
  unfold ScriptsNoPause; infer_instance

/-- A line source → processor → sink: the source (cycle time 2) supplies two parts, the processor
(cycle time 5) is a maintenance target; script 0 (run at time 3) shuts the processor down for
maintenance, script 1 (run at time 6) restores it. -/
def exSrc : Dev := { kind := .source, aid := 1, down := [1], maxParts := some 2, cycle := 2 }
def exProc : Dev := { kind := .processor, aid := 2, up := [0], down := [2], cycle := 5 }
def exSink : Dev := { kind := .sink, aid := 3, up := [1] }
def exEnv : Env :=
  { terminated := false, nextUid := 2
    events :=
      [{ uid := 0, time := 3, prio := pOtherHigh, weight := 0, asset := -1, act := (Action.script 0).toNat },
       { uid := 1, time := 6, prio := pOtherHigh, weight := 0, asset := -1, act := (Action.script 1).toNat }] }
def exWorld : World :=
  { devs := [exSrc, exProc, exSink], assets := [.dev 0, .dev 1, .dev 2]
    scripts := [[.shutdown 1], [.restore 1]], env := exEnv, targets := [{ dev := some 1 }] }

/-- `Static` for a three-device line 0 → 1 → 2 whose devices 1 and 2 are handler-like. -/
theorem static_line (w : World) (d0 d1 d2 : Dev) (hd : w.devs = [d0, d1, d2]) (h0 : d0.down = [1])
    (h1 : d1.down = [2]) (h2 : d2.down = []) (hl1 : isHandlerLike d1.kind = true)
    (hl2 : isHandlerLike d2.kind = true) (hs : C02V.ScriptsStatic w)
    (hb : ¬ C02V.HasBad (C02V.badAct (fun d => (w.dev d).kind = .sink)) w) : Static w := by
  have e0 : w.dev 0 = d0 := by simp [World.dev, hd]
  have e1 : w.dev 1 = d1 := by simp [World.dev, hd]
  have e2 : w.dev 2 = d2 := by simp [World.dev, hd]
  have hlen : w.devs.length = 3 := by rw [hd]; rfl
  refine ⟨hs, ?_, hb⟩
  intro x y hy z hr
  have hx : x = 0 ∨ x = 1 ∨ x = 2 ∨ 3 ≤ x := by omega
  rcases hx with rfl | rfl | rfl | hx
  · rw [e0, h0] at hy
    have : y = 1 := by simpa using hy
    subst this
    have := C02.reach_handlerLike (t := C02V.st w) (y := 1) (by rw [C02V.st_kind, e1]; exact hl1) hr
    subst this
    rw [hlen]; decide
  · rw [e1, h1] at hy
    have : y = 2 := by simpa using hy
    subst this
    have := C02.reach_handlerLike (t := C02V.st w) (y := 2) (by rw [C02V.st_kind, e2]; exact hl2) hr
    subst this
    rw [hlen]; decide
  · rw [e2, h2] at hy; cases hy
  · rw [C02V.dev_of_ge w x (by rw [hlen]; exact hx)] at hy; cases hy

theorem static_exWorld : Static exWorld := by
  refine static_line exWorld exSrc exProc exSink rfl rfl rfl rfl rfl rfl ?_ ?_
  · intro l hl op hop
    simp only [exWorld, List.mem_cons, List.mem_nil_iff, or_false] at hl
    rcases hl with rfl | rfl <;>
      (simp only [List.mem_cons, List.mem_nil_iff, or_false] at hop; subst hop; trivial)
  · rintro ⟨n, hn, d, hd, _⟩
    simp only [C02V.acts, exWorld, exEnv, List.append_nil, List.map_cons, List.map_nil, List.mem_cons,
      List.mem_nil_iff, or_false] at hn
    rcases hn with rfl | rfl <;> simp [Action.ofNat, Action.toNat] at hd

/-- The hypotheses of the closed-world theorems hold for the example (`decide` wherever the
condition is a decidable check). -/
theorem static'_exWorld : Static' exWorld where
  static := static_exWorld
  aids := by decide
  targets := by
    intro t ht d hd
    simp only [exWorld, List.mem_cons, List.mem_nil_iff, or_false] at ht
    subst ht
    cases hd
    decide
  noPause := by decide
  noBadFail := by
    rintro ⟨n, hn, d, hd, _⟩
    simp only [C02V.acts, exWorld, exEnv, List.append_nil, List.map_cons, List.map_nil, List.mem_cons,
      List.mem_nil_iff, or_false] at hn
    rcases hn with rfl | rfl <;> simp [Action.ofNat, Action.toNat] at hd

theorem init_exWorld : Init exWorld where
  slots := by decide
  procs := by decide
  noFinish := by decide
  queue := ⟨by unfold SortedEv; decide, by decide, by decide, by decide⟩
  paused := by intro e he; cases he
  err := rfl

example : C02.Fresh exWorld := ⟨rfl, rfl, rfl, rfl, by decide⟩

/-- the example after initialisation and `n` steps -/
def exRun (n : Nat) : World := runLoop n exWorld.simulateInit

-- the invariant holds along the run (by the theorem), and the run completes without any error
example (n : Nat) : WI (exRun n) := timer_reachable n exWorld static'_exWorld init_exWorld
example : (exRun 40).error = none ∧ (exRun 40).env.events = [] ∧ (exRun 40).now = 15 ∧
    ((exRun 40).dev 2).recvCount = 2 := by decide

-- the conclusions are not trivial: after 2 steps the processor has accepted part 0 at time 2 with
-- remaining work 5 (one pending finish event, due at 7); after the shutdown at time 3 (3 steps) the
-- event is paused with remaining work 4, and stays so while the machine is down (5 steps, time 4);
-- restored at time 6 it is pending again, due at 10 = 2 + 5 + 3 (6 steps); at time 10 it fires
example : (exRun 2).now = 2 ∧ ((exRun 2).dev 1).part = some 0 ∧ rem (exRun 2).env 1 = [(4, 5)] ∧
    (finE (exRun 2).env 1).map (·.time) = [7] ∧ finP (exRun 2).env 1 = [] := by decide
example : (exRun 3).now = 3 ∧ ((exRun 3).dev 1).shutDown = true ∧ ((exRun 3).dev 1).part = some 0 ∧
    rem (exRun 3).env 1 = [(4, 4)] ∧ finE (exRun 3).env 1 = [] ∧
    (finP (exRun 3).env 1).map (fun e => (e.time, e.pausedAt)) = [(7, some 3)] := by decide
example : (exRun 5).now = 4 ∧ rem (exRun 5).env 1 = [(4, 4)] := by decide
example : (exRun 6).now = 6 ∧ ((exRun 6).dev 1).shutDown = false ∧ rem (exRun 6).env 1 = [(4, 4)] ∧
    (finE (exRun 6).env 1).map (·.time) = [10] := by decide
example : (exRun 7).now = 10 ∧ ((exRun 7).dev 1).part = none ∧ ((exRun 7).dev 1).output = some 0 ∧
    rem (exRun 7).env 1 = [] := by decide

-- `remaining_rate` on the step from time 2 to time 3 (operational: 5 − (3 − 2) = 4) and on the step
-- from time 3 to time 4 (shut down: 4 − 0 = 4): hypotheses and conclusion evaluated
example : (exRun 2).operational 1 = true ∧ rem (exRun 2).env 1 = [(4, 5)] ∧
    (exRun 2).step.map (fun p => (p.1.time, rem p.2.env 1)) = some (3, [(4, 4)]) := by decide
example : (exRun 3).operational 1 = false ∧ rem (exRun 3).env 1 = [(4, 4)] ∧
    (exRun 3).step.map (fun p => (p.1.time, rem p.2.env 1)) = some (4, [(4, 4)]) := by decide

-- `accept_starts_timer`: after 1 step (time 2) the processor can accept part 0 with delay 5; hypotheses
-- and conclusion evaluated
example : 1 < (exRun 1).devs.length ∧ ((exRun 1).dev 1).kind = .processor ∧
    (exRun 1).canAcceptBasic 1 0 = true ∧ (exRun 1).acceptDelay 1 0 = 5 ∧
    rem ((exRun 1).acceptPart 1 0).env 1 = [((exRun 1).env.nextUid, 5)] := by decide

-- the accounting of C13 along the run: uptime 7 = 3 + (10 − 6) at time 10, utilisation 5
example : C13.uptimeAt (exRun 7) 1 = 7 ∧ C13.utilAt (exRun 7) 1 = 5 := by decide

/-! #### non-vacuity, continued: the extra static conditions are needed; `sched-past` is not excluded -/

/-- The example with a script that pauses the asset id of the processor directly (`Op.pause 2`)
instead of shutting it down. -/
def exBad : World := { exWorld with scripts := [[.pause 2], [.restore 1]] }

theorem static_exBad : Static exBad := by
  refine static_line exBad exSrc exProc exSink rfl rfl rfl rfl rfl rfl ?_ ?_
  · intro l hl op hop
    simp only [exBad, List.mem_cons, List.mem_nil_iff, or_false] at hl
    rcases hl with rfl | rfl <;>
      (simp only [List.mem_cons, List.mem_nil_iff, or_false] at hop; subst hop; trivial)
  · rintro ⟨n, hn, d, hd, _⟩
    simp only [C02V.acts, exBad, exWorld, exEnv, List.append_nil, List.map_cons, List.map_nil,
      List.mem_cons, List.mem_nil_iff, or_false] at hn
    rcases hn with rfl | rfl <;> simp [Action.ofNat, Action.toNat] at hd

/-- **Without "scripts do not pause a device's asset id" the invariant is false**: `exBad` satisfies
`Static` (C02), `Fresh`/`Init` and every other condition of `Static'`, but after 3 steps the
processor is operational with part 0 in process while its only finish event is paused — it would
never finish the part (and after an `unpause` + `shutdown` + … sequence a stale timer can fire). -/
theorem timer_false_script_pause :
    Static exBad ∧ Init exBad ∧ (exBad.devs.map (·.aid)).Nodup ∧ TargetsProc exBad ∧ NoBadFail exBad ∧
    ¬ ScriptsNoPause exBad ∧ ¬ Timer (runLoop 3 exBad.simulateInit) := by
  refine ⟨static_exBad, ⟨by decide, by decide, by decide,
    ⟨by unfold SortedEv; decide, by decide, by decide, by decide⟩, (by intro e he; cases he), rfl⟩,
    by decide, ?_, ?_, by decide, ?_⟩
  · intro t ht d hd
    simp only [exBad, exWorld, List.mem_cons, List.mem_nil_iff, or_false] at ht
    subst ht
    cases hd
    decide
  · rintro ⟨n, hn, d, hd, _⟩
    simp only [C02V.acts, exBad, exWorld, exEnv, List.append_nil, List.map_cons, List.map_nil,
      List.mem_cons, List.mem_nil_iff, or_false] at hn
    rcases hn with rfl | rfl <;> simp [Action.ofNat, Action.toNat] at hd
  · intro hT
    have ht := hT 1 (by decide)
    have hb := (ht.busy 0 (by decide)).2
    have hop : opT (tdm ((runLoop 3 exBad.simulateInit).dev 1)) = true := by decide
    rw [hop] at hb
    have : (finE (runLoop 3 exBad.simulateInit).env 1).length = 0 := by decide
    rw [this] at hb
    exact absurd hb.1 (by decide)

/-- A line source → buffer with a NEGATIVE delay → sink. -/
def exPast : World :=
  { devs := [{ kind := .source, aid := 1, down := [1], maxParts := some 1, cycle := 2 },
             { kind := .buffer, aid := 2, up := [0], down := [2], delay := -1 },
             { kind := .sink, aid := 3, up := [1] }]
    assets := [.dev 0, .dev 1, .dev 2], env := { terminated := false } }

/-- **`sched-past` is NOT excluded by the static class** (so `errors_characterised` cannot be
strengthened to "fuel only"): a buffer with a negative delay asks for a hand-over event in the past
(`Buffer` adds `time.now + delay`); `exPast` satisfies `Static'` and `Init` and its run ends with the
error `sched-past`.  (Likewise for negative timetable durations, sensor intervals and work-order
durations; the assertion errors of the part handlers, in contrast, are unreachable.) -/
theorem sched_past_reachable :
    Static' exPast ∧ Init exPast ∧ (runLoop 10 exPast.simulateInit).error = some "sched-past" := by
  have hst : Static exPast := by
    refine static_line exPast _ _ _ rfl rfl rfl rfl rfl rfl ?_ ?_
    · intro l hl; cases hl
    · rintro ⟨n, hn, _⟩
      simp [C02V.acts, exPast] at hn
  refine ⟨⟨hst, by decide, ?_, by decide, ?_⟩, ⟨by decide, by decide, by decide,
    ⟨by unfold SortedEv; decide, by decide, by decide, by decide⟩, (by intro e he; cases he), rfl⟩,
    by decide⟩
  · intro t ht; cases ht
  · rintro ⟨n, hn, _⟩
    simp [C02V.acts, exPast] at hn

end C06W
end SimProc
