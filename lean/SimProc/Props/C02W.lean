/-
C02W — conservation of parts (C02) in worlds that CHANGE WHILE RUNNING.

`Props/C02.lean` proves conservation for `Static` worlds (no `Op.rewire`, no `Op.create`).  Here the
scripts (and the operations issued from outside between steps) MAY re-wire devices and create
devices of every kind, groups, maintainers, schedulers and sensors while the simulation runs.

THE CLASS `Dyn need w` (decidable; `need k` = the number of devices script `k` needs before it may
run — a parameter, every theorem is universally quantified over it; `needOf` computes the pointwise
least one, and `dynAuto_iff : DynAuto w ↔ ∃ need, Dyn need w` makes the class decidable without a
parameter):

* `ScriptsOK`  — script `k`, run in any world with at least `need k` devices, only issues
  operations that are admissible at the device count reached at that point of the script (`OpsOK`:
  the count grows by 1 with every created device, by 2 with every created group):
    - `rewire x ups`: the re-wired device `x` exists (`x < n`).  NOTHING is asked of `ups`: they may
      be out of range, sinks, group inputs/outputs/paths, `x` itself, …;
    - `create (.dev d)`: constructor-fresh (`held d = []`), downstream entries exist (`≤ n`, the new
      device itself is allowed).  Any kind, any upstream list (also devices created earlier);
    - `create (.group …)`: the devices that become inputs of the group exist (`≤ n`);
    - `sched / schedRel / register` of script `k`: `need k ≤ n` (the triggered script may run at once);
    - everything else (failures, shutdown/restore, blocking, budget and capacity changes, work
      orders, resource operations, pause/unpause/cancel, maintainer/scheduler/sensor creation, …):
      no condition.
* `DownOK`, `GinOK` — closed wiring: every downstream entry and every group input exists.
* `EventsOK`   — a pending/paused failure event hits an existing device that is not a sink; a
  pending script event has the devices it needs.
* `CallbacksOK`, `HooksOK` — the same for scripts registered as resource callbacks and for the
  start/end scripts of maintenance targets.

THEOREMS.  `consS_step_dyn`, `consS_runLoop_dyn`, `consS_simulateInit_dyn`, `consS_runBegin_dyn`,
`consS_applyOps_dyn`: `C02.ConsS ∧ Dyn need` is preserved by every event, run, initialisation and
admissible external operation list; `dyn_reachable`; **`conservation_reachable_dyn`**: in every
state reachable from a fresh `Dyn` world, generated = inside + delivered + lost and no part is in two
places (the conclusion of `C02.conservation_reachable`); `conservation_dyn_run` (the shape of
`C02.conservation_reachable`); `actions_admissible_dyn` (every executed action is `ActOK`).

`dyn_step_class`, `dyn_runLoop_class`: the class alone is preserved (no invariant needed);
`consS_exec_dyn`: one lemma for all twelve action kinds; `scriptsOK_of_static`: the scripts of
`C02.Static` worlds are in the class with `need = 0`.

`held_once_reachable_dyn` (no part is held twice) and `budget_reachable_dyn` ("a source never
supplies more than its budget": independent of the topology, for arbitrary re-wiring and for
created sources that start within their budget — `ReachableB`, `BudScripts`).

NECESSITY.  For every clause a machine-checked counterexample: a fresh world satisfying all the
other clauses in which conservation fails (`*_needed` theorems at the end).
-/
import SimProc.Proofs.C02WNeed
import SimProc.Proofs.C02WBudget

namespace SimProc
namespace C02W
open World C02V

/-! ### the vocabulary (defined in `Proofs/C02WDyn.lean`), restated -/

theorem opOK_rewire (need : Nat → Nat) (n x : Nat) (ups : List Nat) :
    OpOK need n (.rewire x ups) ↔ x < n := Iff.rfl
theorem opOK_create_dev (need : Nat → Nat) (n : Nat) (d : Dev) :
    OpOK need n (.create (.dev d)) ↔ C02.held d = [] ∧ ∀ y ∈ d.down, y ≤ n := Iff.rfl
theorem opOK_create_group (need : Nat → Nat) (n gid : Nat) (devs ins outs : List Nat) :
    OpOK need n (.create (.group gid devs ins outs)) ↔
      ∀ d ∈ (if ins.isEmpty then devs.take 1 else ins), d ≤ n := Iff.rfl
theorem opOK_sched (need : Nat → Nat) (n : Nat) (t a : Int) (k : Nat) (p : Int) :
    (OpOK need n (.sched t a k p) ↔ need k ≤ n) ∧ (OpOK need n (.schedRel t a k p) ↔ need k ≤ n) :=
  ⟨Iff.rfl, Iff.rfl⟩
theorem opOK_register (need : Nat → Nat) (n k : Nat) (r : Req) :
    OpOK need n (.register k r) ↔ need k ≤ n := Iff.rfl
/-- e.g. failures, shutdown, blocking, budget changes, work orders: no condition -/
theorem opOK_other (need : Nat → Nat) (n d : Nat) (t : Int) (b : Bool) (v : Int) (m tgt : Nat) (tag info : Int) :
    OpOK need n (.schedFail d t) ∧ OpOK need n (.shutdown d) ∧ OpOK need n (.restore d) ∧
    OpOK need n (.block d b) ∧ OpOK need n (.adjust d v) ∧ OpOK need n (.workOrder m tgt tag info) ∧
    OpOK need n (.cancel t) ∧ OpOK need n (.pause t) :=
  ⟨trivial, trivial, trivial, trivial, trivial, trivial, trivial, trivial⟩
theorem opsOK_cons (need : Nat → Nat) (n : Nat) (op : Op) (ops : List Op) :
    OpsOK need n (op :: ops) ↔ OpOK need n op ∧ OpsOK need (n + created op) ops := Iff.rfl
theorem created_eq (d : Dev) (gid : Nat) (devs ins outs : List Nat) (x : Nat) (ups : List Nat) :
    created (.create (.dev d)) = 1 ∧ created (.create (.group gid devs ins outs)) = 2 ∧
    created (.create .cms) = 0 ∧ created (.rewire x ups) = 0 := ⟨rfl, rfl, rfl, rfl⟩
theorem actSafe_fail (need : Nat → Nat) (w : World) (d : Nat) :
    ActSafe need w (.fail d) ↔ d < w.devs.length ∧ (w.dev d).kind ≠ .sink := Iff.rfl
theorem actSafe_script (need : Nat → Nat) (w : World) (k : Nat) :
    ActSafe need w (.script k) ↔ need k ≤ w.devs.length := Iff.rfl
theorem actSafe_other (need : Nat → Nat) (w : World) (d : Nat) :
    ActSafe need w (.passPart d) ∧ ActSafe need w (.finishCycle d) ∧ ActSafe need w .rmCheck :=
  ⟨trivial, trivial, trivial⟩

/-! ### the class -/

def optLe (need : Nat → Nat) (n : Nat) : Option Nat → Prop
  | none => True
  | some k => need k ≤ n

def CbSafe (need : Nat → Nat) (n : Nat) : Cb → Prop
  | .script k => need k ≤ n
  | .proc _ => True

/-- every script is admissible once `need k` devices exist -/
def ScriptsOK (need : Nat → Nat) (w : World) : Prop :=
  ∀ k < w.scripts.length, OpsOK need (need k) (w.scripts.getD k [])

/-- every downstream entry names an existing device -/
def DownOK (w : World) : Prop := ∀ d ∈ w.devs, ∀ y ∈ d.down, y < w.devs.length

/-- the input device of every group exists (0 = the default of a missing group) -/
def GinOK (w : World) : Prop := ∀ g ∈ w.groups, g.input = 0 ∨ g.input < w.devs.length

/-- pending and paused events: failures hit existing non-sinks, scripts are admissible now -/
def EventsOK (need : Nat → Nat) (w : World) : Prop :=
  ∀ e ∈ w.env.events ++ w.env.paused, ActSafe need w (Action.ofNat e.act)

def CallbacksOK (need : Nat → Nat) (w : World) : Prop :=
  ∀ e ∈ w.rm.waiting, CbSafe need w.devs.length e.2

def HooksOK (need : Nat → Nat) (w : World) : Prop :=
  ∀ t ∈ w.targets, optLe need w.devs.length t.startScript ∧ optLe need w.devs.length t.endScript

/-- **The dynamic class.** -/
structure Dyn (need : Nat → Nat) (w : World) : Prop where
  scripts : ScriptsOK need w
  down : DownOK w
  gin : GinOK w
  events : EventsOK need w
  callbacks : CallbacksOK need w
  hooks : HooksOK need w

/-! ### decidability -/

instance (n : Nat) (s : AssetSpec) : Decidable (SpecOKAt n s) := by
  cases s <;> (simp only [SpecOKAt]; infer_instance)

instance (need : Nat → Nat) (n : Nat) (op : Op) : Decidable (OpOK need n op) := by
  cases op <;> (simp only [OpOK]; infer_instance)

instance decOpsOK (need : Nat → Nat) : ∀ (n : Nat) (ops : List Op), Decidable (OpsOK need n ops)
  | _, [] => isTrue trivial
  | n, op :: ops =>
    have := decOpsOK need (n + created op) ops
    by unfold OpsOK; infer_instance

instance (need : Nat → Nat) (w : World) (a : Action) : Decidable (ActSafe need w a) := by
  cases a <;> (simp only [ActSafe]; infer_instance)

instance (need : Nat → Nat) (n : Nat) (o : Option Nat) : Decidable (optLe need n o) := by
  cases o <;> (simp only [optLe]; infer_instance)

instance (need : Nat → Nat) (n : Nat) (c : Cb) : Decidable (CbSafe need n c) := by
  cases c <;> (simp only [CbSafe]; infer_instance)

instance (need : Nat → Nat) (w : World) : Decidable (ScriptsOK need w) := by unfold ScriptsOK; infer_instance
instance (w : World) : Decidable (DownOK w) := by unfold DownOK; infer_instance
instance (w : World) : Decidable (GinOK w) := by unfold GinOK; infer_instance
instance (need : Nat → Nat) (w : World) : Decidable (EventsOK need w) := by unfold EventsOK; infer_instance
instance (need : Nat → Nat) (w : World) : Decidable (CallbacksOK need w) := by
  unfold CallbacksOK; infer_instance
instance (need : Nat → Nat) (w : World) : Decidable (HooksOK need w) := by unfold HooksOK; infer_instance

theorem dyn_def (need : Nat → Nat) (w : World) : Dyn need w ↔
    ScriptsOK need w ∧ DownOK w ∧ GinOK w ∧ EventsOK need w ∧ CallbacksOK need w ∧ HooksOK need w :=
  ⟨fun h => ⟨h.1, h.2, h.3, h.4, h.5, h.6⟩, fun h => ⟨h.1, h.2.1, h.2.2.1, h.2.2.2.1, h.2.2.2.2.1, h.2.2.2.2.2⟩⟩

instance (need : Nat → Nat) (w : World) : Decidable (Dyn need w) :=
  decidable_of_iff _ (dyn_def need w).symm

/-! ### the least `need`, computed from the scripts

`needOf scripts` (`Proofs/C02WNeed.lean`): `opsNeed need c ops` is the least device count at which
the list `ops` is admissible (`c` devices created before); `needStep` applies it to every script;
`needOf` iterates from 0 until stationary (at most `length * needBound` proper increases). -/

/-- The class with the computed `need`: decidable, no parameter. -/
def DynAuto (w : World) : Prop := Dyn (nd (needOf w.scripts)) w

instance (w : World) : Decidable (DynAuto w) := by unfold DynAuto; infer_instance

/-! ### the class in the terms of the machinery -/

theorem dev_mem' {w : World} {x : Nat} (hx : x < w.devs.length) : w.dev x ∈ w.devs := by
  unfold World.dev
  rw [List.getD_eq_getElem?_getD, List.getElem?_eq_getElem hx]
  exact List.getElem_mem hx

theorem dyn_iff (need : Nat → Nat) (w : World) : Dyn need w ↔ DynN need w := by
  constructor
  · intro h
    refine ⟨?_, ⟨?_, ?_⟩, ⟨?_, ?_, ?_⟩⟩
    · intro k
      by_cases hk : k < w.scripts.length
      · exact h.scripts k hk
      · have : w.scripts.getD k [] = [] := by simp [List.getD_eq_getElem?_getD, Nat.le_of_not_lt hk]
        rw [this]; trivial
    · intro x y hy
      by_cases hx : x < w.devs.length
      · exact h.down _ (dev_mem' hx) y hy
      · rw [dev_of_length_le (Nat.le_of_not_lt hx)] at hy; cases hy
    · intro g
      unfold ginp
      by_cases hg : g < w.groups.length
      · have : w.groups.getD g default = w.groups[g] := by simp [List.getD_eq_getElem?_getD, hg]
        rw [this]; exact h.gin _ (List.getElem_mem hg)
      · have : w.groups.getD g default = default := by
          simp [List.getD_eq_getElem?_getD, Nat.le_of_not_lt hg]
        rw [this]; exact Or.inl rfl
    · intro n hn
      obtain ⟨e, he, rfl⟩ := (mem_acts _ _).1 hn.1
      exact h.events e (List.mem_append.2 he)
    · intro k hk
      have hk' : k ∈ rmScripts w.rm := hk
      unfold rmScripts at hk'
      rw [List.mem_filterMap] at hk'
      obtain ⟨e, he, hek⟩ := hk'
      have := h.callbacks e he
      cases hc : e.2 with
      | script j =>
        rw [hc] at hek this
        have : j = k := by simpa [cbScript] using hek
        subst this; exact this
      | proc d => rw [hc] at hek; cases hek
    · intro x hx
      have hx' : x ∈ w.targets.map (fun t => (t.startScript, t.endScript)) := hx
      rw [List.mem_map] at hx'
      obtain ⟨t, ht, rfl⟩ := hx'
      have := h.hooks t ht
      refine ⟨fun k hk => ?_, fun k hk => ?_⟩
      · have h1 := this.1; simp only [] at hk; rw [hk] at h1; exact h1
      · have h2 := this.2; simp only [] at hk; rw [hk] at h2; exact h2
  · intro h
    refine ⟨fun k _ => h.scripts k, ?_, ?_, ?_, ?_, ?_⟩
    · intro d hd y hy
      obtain ⟨i, hi, rfl⟩ := List.getElem_of_mem hd
      have : w.dev i = w.devs[i] := by
        unfold World.dev; rw [List.getD_eq_getElem?_getD, List.getElem?_eq_getElem hi]; rfl
      exact h.wired.down i y (by rw [this]; exact hy)
    · intro g hg
      obtain ⟨i, hi, rfl⟩ := List.getElem_of_mem hg
      have : ginp w i = (w.groups[i]).input := by
        unfold ginp; rw [List.getD_eq_getElem?_getD, List.getElem?_eq_getElem hi]; rfl
      rw [← this]; exact h.wired.gin i
    · intro e he
      have hmem : e.act ∈ acts w.env := (mem_acts _ _).2 ⟨e, List.mem_append.1 he, rfl⟩
      by_cases hs : Sens e.act
      · exact h.tok.ev _ ⟨hmem, hs⟩
      · cases ha : Action.ofNat e.act with
        | fail d => exact absurd (Or.inl ⟨d, ha⟩) hs
        | script k => exact absurd (Or.inr ⟨k, ha⟩) hs
        | _ => trivial
    · intro e he
      cases hc : e.2 with
      | script k =>
        apply h.tok.rm k
        show k ∈ rmScripts w.rm
        unfold rmScripts
        rw [List.mem_filterMap]
        exact ⟨e, he, by rw [hc]; rfl⟩
      | proc d => trivial
    · intro t ht
      have := h.tok.tg (t.startScript, t.endScript) (by
        show _ ∈ List.map _ _
        exact List.mem_map.2 ⟨t, ht, rfl⟩)
      constructor
      · cases hs : t.startScript with
        | none => trivial
        | some k => exact this.1 k hs
      · cases hs : t.endScript with
        | none => trivial
        | some k => exact this.2 k hs

/-! ### what is NOT restricted -/

/-- A re-wiring is admissible as soon as the re-wired device exists, whatever the new upstream list
is: devices out of range, sinks, group inputs/outputs/paths, the device itself. -/
theorem rewire_any_upstream (need : Nat → Nat) (n x : Nat) (ups : List Nat) (h : x < n) :
    OpOK need n (.rewire x ups) := h

/-- A constructor-fresh device of any kind with any upstream list is admissible at every count. -/
theorem create_any_upstream (need : Nat → Nat) (n : Nat) (d : Dev) (h : C02.held d = []) (hd : d.down = []) :
    OpOK need n (.create (.dev d)) := ⟨h, by rw [hd]; intro y hy; cases hy⟩

/-- Maintainers, schedulers, sensors, sensor collections: always admissible. -/
theorem create_nondev (need : Nat → Nat) (n : Nat) (cap : Option Int) (v : Int) (tt : List (Int × Int))
    (cyc : Bool) (s : SensorW) :
    OpOK need n (.create (.maint cap v)) ∧ OpOK need n (.create (.sched tt cyc)) ∧
    OpOK need n (.create (.sensor s)) ∧ OpOK need n (.create .cms) := ⟨trivial, trivial, trivial, trivial⟩

/-! ### preservation -/

theorem consS_step_dyn {need : Nat → Nat} (w w' : World) (e : Event) (h : C02.ConsS w) (hd : Dyn need w)
    (hst : w.step = some (e, w')) : C02.ConsS w' ∧ Dyn need w' := by
  have := dyn_step w w' e ((C02.consS_iff w).1 h) ((dyn_iff need w).1 hd) hst
  exact ⟨(C02.consS_iff w').2 this.1, (dyn_iff need w').2 this.2⟩

theorem consS_runLoop_dyn {need : Nat → Nat} (n : Nat) (w : World) (h : C02.ConsS w) (hd : Dyn need w) :
    C02.ConsS (runLoop n w) ∧ Dyn need (runLoop n w) := by
  have := dyn_runLoop n w ((C02.consS_iff w).1 h) ((dyn_iff need w).1 hd)
  exact ⟨(C02.consS_iff _).2 this.1, (dyn_iff need _).2 this.2⟩

theorem consS_simulateInit_dyn {need : Nat → Nat} (w : World) (h : C02.ConsS w) (hd : Dyn need w) :
    C02.ConsS w.simulateInit ∧ Dyn need w.simulateInit :=
  ⟨C02.consS_simulateInit w h, (dyn_iff need _).2 (dyn_simulateInit w ((dyn_iff need w).1 hd))⟩

theorem consS_runBegin_dyn {need : Nat → Nat} (w : World) (d : Int) (h : C02.ConsS w) (hd : Dyn need w) :
    C02.ConsS (w.runBegin d).1 ∧ Dyn need (w.runBegin d).1 :=
  ⟨(C02.consS_iff _).2 (inv_runBegin w d ((C02.consS_iff w).1 h)),
   (dyn_iff need _).2 (dyn_runBegin w d ((dyn_iff need w).1 hd))⟩

/-- Operations issued from outside between steps: any list that is admissible at the present device
count (it may create devices and re-wire to them further down the list). -/
theorem consS_applyOps_dyn {need : Nat → Nat} (w : World) (ops : List Op) (h : C02.ConsS w) (hd : Dyn need w)
    (ho : OpsOK need w.devs.length ops) : C02.ConsS (w.applyOps ops) ∧ Dyn need (w.applyOps ops) := by
  have := dyn_ops w ops ((C02.consS_iff w).1 h) ((dyn_iff need w).1 hd) ho
  exact ⟨(C02.consS_iff _).2 this.1, (dyn_iff need _).2 this.2⟩

/-- The class by itself is preserved by every step (the conservation invariant is not needed for
that): scripts re-wire and create, the class follows. -/
theorem dyn_step_class {need : Nat → Nat} (w w' : World) (e : Event) (hd : Dyn need w)
    (hst : w.step = some (e, w')) : Dyn need w' :=
  (dyn_iff need w').2 (dynN_step w w' e ((dyn_iff need w).1 hd) hst)

theorem dyn_runLoop_class {need : Nat → Nat} (n : Nat) (w : World) (hd : Dyn need w) : Dyn need (runLoop n w) :=
  (dyn_iff need _).2 (dynN_runLoop n w ((dyn_iff need w).1 hd))

/-- The device count only grows along every script. -/
theorem runScript_grows {need : Nat → Nat} (w : World) (k : Nat) (hd : Dyn need w)
    (hk : need k ≤ w.devs.length) : w.devs.length ≤ (w.runScript k).devs.length :=
  (dyn_runScript w k ((dyn_iff need w).1 hd) hk).2

/-- One event action (every kind): if it is safe to run now (`ActSafe`: a failure hits an existing
device that is not a sink, a script has the devices it needs; no condition for the other ten kinds)
it preserves the invariant and the class. -/
theorem consS_exec_dyn {need : Nat → Nat} (w : World) (a : Action) (h : C02.ConsS w) (hd : Dyn need w)
    (ha : ActSafe need w a) : C02.ConsS (w.exec a) ∧ Dyn need (w.exec a) := by
  have hn := (dyn_iff need w).1 hd
  have hg : Good Inv w := ⟨(C02.consS_iff w).1 h, scriptsOK_of_dyn hn.scripts⟩
  exact ⟨(C02.consS_iff _).2 (good_exec w a hg (actOK_of_dyn hn ha)).1, (dyn_iff need _).2 (dyn_exec w a hn ha)⟩

/-- A script that has the devices it needs — re-wiring, creating, scheduling as it goes. -/
theorem consS_runScript_dyn {need : Nat → Nat} (w : World) (k : Nat) (h : C02.ConsS w) (hd : Dyn need w)
    (hk : need k ≤ w.devs.length) : C02.ConsS (w.runScript k) ∧ Dyn need (w.runScript k) :=
  consS_exec_dyn w (.script k) h hd hk

/-- A single operation that is admissible at the present device count. -/
theorem consS_applyOp_dyn {need : Nat → Nat} (w : World) (op : Op) (h : C02.ConsS w) (hd : Dyn need w)
    (ho : OpOK need w.devs.length op) : C02.ConsS (w.applyOp op).1 ∧ Dyn need (w.applyOp op).1 := by
  have := consS_applyOps_dyn w [op] h hd ⟨ho, trivial⟩
  have hI : InvW (w.applyOps [op]) := (C02.consS_iff _).1 this.1
  have hI' : InvW (w.applyOp op).1 := hI.of_sv rfl
  exact ⟨(C02.consS_iff _).2 hI', (dyn_iff need _).2 (((dyn_iff need _).1 this.2).of_st rfl rfl rfl)⟩

/-- `set_upstream` called from outside: the re-wired device exists; the new upstream list is arbitrary. -/
theorem consS_rewire_dyn {need : Nat → Nat} (w : World) (x : Nat) (ups : List Nat) (h : C02.ConsS w)
    (hd : Dyn need w) (hx : x < w.devs.length) : C02.ConsS (w.rewire x ups) ∧ Dyn need (w.rewire x ups) :=
  consS_applyOp_dyn w (.rewire x ups) h hd hx

/-- A constructor call from outside (before or while the simulation runs). -/
theorem consS_addAsset_dyn {need : Nat → Nat} (w : World) (spec : AssetSpec) (h : C02.ConsS w)
    (hd : Dyn need w) (hs : SpecOKAt w.devs.length spec) :
    C02.ConsS (w.addAsset spec) ∧ Dyn need (w.addAsset spec) :=
  consS_applyOp_dyn w (.create spec) h hd hs

/-- Every action the event loop executes in a `Dyn` world is admissible for conservation
(`ActOK`: no failure of a sink, every device the hand-over can reach exists). -/
theorem actions_admissible_dyn {need : Nat → Nat} (w : World) (e : Event) (env' : Env) (hd : Dyn need w)
    (hst : w.env.step = some (e, env')) : ActOK { w with env := env' } (Action.ofNat e.act) := by
  have h := (dyn_iff need w).1 hd
  exact actOK_of_dyn (dyn_pop h hst) ((safe_head h hst).env env')

/-- Closed wiring makes every hand-over admissible. -/
theorem giveOK_of_dyn {need : Nat → Nat} (w : World) (hd : Dyn need w) (x : Nat) : GiveOK w x :=
  topoOK_of_wired ((dyn_iff need w).1 hd).wired x

/-- The static class of `Props/C02.lean` is covered: scripts without re-wiring and creation are
admissible with `need = 0`. -/
theorem scriptsOK_of_static (w : World) (h : ScriptsStatic w) : ScriptsOK (fun _ => 0) w := by
  intro k hk
  have hk' : w.scripts.getD k [] = w.scripts[k] := by simp [List.getD_eq_getElem?_getD, hk]
  rw [hk']
  have key : ∀ (ops : List Op), (∀ op ∈ ops, OpStatic w op) → ∀ n, OpsOK (fun _ => 0) n ops := by
    intro ops
    induction ops with
    | nil => intro _ _; trivial
    | cons op ops ih =>
      intro hs n
      refine ⟨?_, ih (fun o ho => hs o (List.mem_cons_of_mem _ ho)) _⟩
      have := hs op (List.mem_cons_self ..)
      cases op
      case rewire x ups => exact absurd this id
      case create s => exact absurd this id
      case sched t a k p => exact Nat.zero_le _
      case schedRel t a k p => exact Nat.zero_le _
      case register k r => exact Nat.zero_le _
      all_goals trivial
  exact key _ (fun op hop => h _ (List.getElem_mem hk) op hop) _

/-- **The parameter can be computed**: a world is in the class for SOME `need` iff it is in the
class for the computed one — which is pointwise the least.  So `∃ need, Dyn need w` is decidable. -/
theorem dynAuto_iff (w : World) : DynAuto w ↔ ∃ need, Dyn need w := by
  constructor
  · intro h; exact ⟨_, h⟩
  · rintro ⟨need, h⟩
    exact (dyn_iff _ w).2 (dynN_needOf ((dyn_iff need w).1 h))

theorem needOf_least_dyn {need : Nat → Nat} {w : World} (h : Dyn need w) (k : Nat) :
    nd (needOf w.scripts) k ≤ need k :=
  (scriptsDyn_needOf ((dyn_iff need w).1 h).scripts).2 k

instance (w : World) : Decidable (∃ need, Dyn need w) := decidable_of_iff _ (dynAuto_iff w)

/-! ### reachable states -/

/-- Everything that can happen to a world: initialisation, single steps, runs, `run` requests,
operation lists issued from outside (admissible at the device count of the moment), and direct
`set_upstream` / constructor calls. -/
inductive Reachable (need : Nat → Nat) (w0 : World) : World → Prop
  | start : Reachable need w0 w0
  | init {w : World} : Reachable need w0 w → Reachable need w0 w.simulateInit
  | step {w w' : World} {e : Event} : Reachable need w0 w → w.step = some (e, w') → Reachable need w0 w'
  | loop {w : World} (n : Nat) : Reachable need w0 w → Reachable need w0 (runLoop n w)
  | run {w : World} (d : Int) : Reachable need w0 w → Reachable need w0 (w.runBegin d).1
  | ops {w : World} (ops : List Op) : Reachable need w0 w → OpsOK need w.devs.length ops →
      Reachable need w0 (w.applyOps ops)
  | rewire {w : World} (x : Nat) (ups : List Nat) : Reachable need w0 w → x < w.devs.length →
      Reachable need w0 (w.rewire x ups)
  | create {w : World} (spec : AssetSpec) : Reachable need w0 w → SpecOKAt w.devs.length spec →
      Reachable need w0 (w.addAsset spec)

/-- **The invariant and the class hold in every reachable state.** -/
theorem dyn_reachable {need : Nat → Nat} {w0 w : World} (h : C02.ConsS w0) (hd : Dyn need w0)
    (hr : Reachable need w0 w) : C02.ConsS w ∧ Dyn need w := by
  induction hr with
  | start => exact ⟨h, hd⟩
  | init _ ih => exact consS_simulateInit_dyn _ ih.1 ih.2
  | step _ hst ih => exact consS_step_dyn _ _ _ ih.1 ih.2 hst
  | loop n _ ih => exact consS_runLoop_dyn n _ ih.1 ih.2
  | run d _ ih => exact consS_runBegin_dyn _ d ih.1 ih.2
  | ops l _ ho ih => exact consS_applyOps_dyn _ l ih.1 ih.2 ho
  | rewire x ups _ hx ih => exact consS_rewire_dyn _ x ups ih.1 ih.2 hx
  | create spec _ hs ih => exact consS_addAsset_dyn _ spec ih.1 ih.2 hs

/-- **Conservation in worlds that change while running.**  In every state reachable from a fresh
world of the class — through initialisation, events, runs and external operations, with scripts
that re-wire devices and create devices while the simulation runs — the number of generated parts
is the number inside devices plus delivered plus lost, and no part is in two places. -/
theorem conservation_reachable_dyn {need : Nat → Nat} {w0 w : World} (hf : C02.Fresh w0) (hd : Dyn need w0)
    (hr : Reachable need w0 w) :
    w.generated.length = (C02.inside w).length + w.delivered.length + w.lost.length ∧
    (C02.mass w).Nodup :=
  C02.conservation w (dyn_reachable (C02.consS_fresh w0 hf) hd hr).1.cons

/-- The statement in the shape of `C02.conservation_reachable`. -/
theorem conservation_dyn_run {need : Nat → Nat} (n : Nat) (w : World) (hf : C02.Fresh w) (hd : Dyn need w) :
    let w' := runLoop n w.simulateInit
    w'.generated.length = (C02.inside w').length + w'.delivered.length + w'.lost.length ∧
    (C02.mass w').Nodup :=
  conservation_reachable_dyn hf hd (.loop n (.init .start))

/-- With the computed `need` (`DynAuto`, decidable, no parameter). -/
theorem conservation_reachable_auto {w0 w : World} (hf : C02.Fresh w0) (hd : DynAuto w0)
    (hr : Reachable (nd (needOf w0.scripts)) w0 w) :
    w.generated.length = (C02.inside w).length + w.delivered.length + w.lost.length ∧
    (C02.mass w).Nodup :=
  conservation_reachable_dyn hf hd hr

/-- `System.simulate(d)` with fuel `n`. -/
theorem reachable_simulate {need : Nat → Nat} (n : Nat) (d : Int) (w : World) :
    Reachable need w (runLoop n (w.simulateInit.runBegin d).1) := .loop n (.run d (.init .start))

/-- A single-slot device accepts a part only into empty slots (unconditional, `C02.accept_only_empty`);
in a reachable state no top-level part is held twice. -/
theorem held_once_reachable_dyn {need : Nat → Nat} {w0 w : World} (hf : C02.Fresh w0) (hd : Dyn need w0)
    (hr : Reachable need w0 w) : (w.devs.flatMap C02.held).Nodup :=
  (dyn_reachable (C02.consS_fresh w0 hf) hd hr).1.cons.topNodup

/-! ### the source budget

"A source never supplies more than its budget" does not depend on the topology at all: it holds in
every state reachable by ARBITRARY re-wiring and by constructor calls whose sources start within
their own budget (`BudScripts`: every `create (.dev d)` in a script has `BudDev d`). -/

instance (d : Dev) : Decidable (BudDev d) :=
  match h : d.maxParts with
  | none => isTrue (by intro _ m hm; rw [h] at hm; cases hm)
  | some m => decidable_of_iff (d.kind = .source → d.produced ≤ m)
      ⟨fun hh hk m' hm => by rw [h] at hm; cases hm; exact hh hk, fun hh hk => hh hk m h⟩
instance (s : AssetSpec) : Decidable (BudSpec s) := by cases s <;> (simp only [BudSpec]; infer_instance)
instance (op : Op) : Decidable (BudOp op) := by cases op <;> (simp only [BudOp]; infer_instance)
instance (w : World) : Decidable (BudScripts w) := by unfold BudScripts; infer_instance

/-- Reachability for the budget theorem: no condition on re-wiring, none on the topology. -/
inductive ReachableB (w0 : World) : World → Prop
  | start : ReachableB w0 w0
  | init {w : World} : ReachableB w0 w → ReachableB w0 w.simulateInit
  | step {w w' : World} {e : Event} : ReachableB w0 w → w.step = some (e, w') → ReachableB w0 w'
  | loop {w : World} (n : Nat) : ReachableB w0 w → ReachableB w0 (runLoop n w)
  | run {w : World} (d : Int) : ReachableB w0 w → ReachableB w0 (w.runBegin d).1
  | ops {w : World} (ops : List Op) : ReachableB w0 w → (∀ op ∈ ops, BudOp op) →
      ReachableB w0 (w.applyOps ops)

theorem budget_step_dyn (w w' : World) (e : Event) (h : C02.Budget w) (hs : BudScripts w)
    (hst : w.step = some (e, w')) : C02.Budget w' ∧ BudScripts w' := bg_step w w' e ⟨h, hs⟩ hst

/-- **A source never supplies more than its budget**, in every state reachable with re-wiring and
creation (created sources included). -/
theorem budget_reachable_dyn {w0 w : World} (h : C02.Budget w0) (hs : BudScripts w0)
    (hr : ReachableB w0 w) : C02.Budget w ∧ BudScripts w := by
  induction hr with
  | start => exact ⟨h, hs⟩
  | init _ ih => exact bg_simulateInit _ ih
  | step _ hst ih => exact bg_step _ _ _ ih hst
  | loop n _ ih => exact bg_runLoop n _ ih
  | run d _ ih => exact bg_runBegin _ d ih
  | ops l _ ho ih => exact bg_applyOps l _ ih ho

/-- The restriction on created sources is needed: a source created beyond its budget. -/
def cexBudget : World :=
  ({} : World).applyOps [.create (.dev { kind := .source, maxParts := some 2, produced := 5 })]
theorem budget_spec_needed : C02.Budget ({} : World) ∧ ¬ C02.Budget cexBudget := by
  refine ⟨(by intro d hd; cases hd), ?_⟩
  intro h
  have := budDev_dev h 0
  revert this; decide +kernel

/-! ### necessity of the clauses

Each counterexample is a fresh world that satisfies every clause of `Dyn` except one, in which
conservation fails after a run.  `line`: a source (3 parts, one per time unit) feeding a sink (cycle
time 4). -/

/-- the count equation of conservation -/
def Balanced (w : World) : Prop :=
  w.generated.length = (C02.inside w).length + w.delivered.length + w.lost.length

instance (w : World) : Decidable (Balanced w) := by unfold Balanced; infer_instance

instance (w : World) : Decidable (C02.Fresh w) := by unfold C02.Fresh; infer_instance

theorem balanced_of_cons {w : World} (h : C02.Cons w) : Balanced w := (C02.conservation w h).1

/-- `System.simulate(30)` with fuel `n` -/
def sim (w : World) (n : Nat) : World := runLoop n (w.simulateInit.runBegin 30).1

def line (w : World) : World :=
  let w := w.addAsset (.dev { kind := .source, cycle := 1, maxParts := some 3 })
  w.addAsset (.dev { kind := .sink, up := [0], cycle := 4 })

/-- `line` with the scripts `scr`, script 0 scheduled for time 2 -/
def lineS (scr : List (List Op)) : World := ((line { scripts := scr }).applyOp (.sched 2 0 0 pOtherLow)).1

/-- all clauses except `ScriptsOK` -/
def DynButScripts (need : Nat → Nat) (w : World) : Prop :=
  DownOK w ∧ GinOK w ∧ EventsOK need w ∧ CallbacksOK need w ∧ HooksOK need w

instance (need : Nat → Nat) (w : World) : Decidable (DynButScripts need w) := by
  unfold DynButScripts; infer_instance

/-- (1) `rewire x ups` with `x` out of range: the upstream device hands its parts to a device that
does not exist. -/
def cexRewire : World := lineS [[.rewire 5 [0]]]
theorem rewire_range_needed : C02.Fresh cexRewire ∧ DynButScripts (fun _ => 0) cexRewire ∧
    ¬ Balanced (sim cexRewire 60) := by decide +kernel

/-- (2) a created device that names a downstream neighbour that does not exist. -/
def cexDown : World := lineS [[.create (.dev { kind := .handler, up := [0], down := [9] })]]
theorem create_down_needed : C02.Fresh cexDown ∧ DynButScripts (fun _ => 0) cexDown ∧
    ¬ Balanced (sim cexDown 60) := by decide +kernel

/-- (3) a created device that is not constructor-fresh (it "holds" part 0, which the source generates). -/
def cexHeld : World := lineS [[.create (.dev { kind := .handler, part := some 0 })]]
theorem create_fresh_needed : C02.Fresh cexHeld ∧ DynButScripts (fun _ => 0) cexHeld ∧
    ¬ Balanced (sim cexHeld 60) := by decide +kernel

/-- (4) a created group whose input device does not exist (the source is then wired to the group). -/
def cexGroup : World := lineS [[.create (.group 0 [] [7] []), .rewire 2 [0]]]
theorem group_input_needed : C02.Fresh cexGroup ∧ DynButScripts (fun _ => 0) cexGroup ∧
    ¬ Balanced (sim cexGroup 60) := by decide +kernel

/-- (5) a script schedules a script that is not admissible yet (`need 1 = 3 > 2`). -/
def cexSched : World := lineS [[.schedRel 1 0 1 pOtherLow], [.rewire 2 [0]]]
theorem sched_need_needed : C02.Fresh cexSched ∧ DynButScripts (fun k => [0, 3].getD k 0) cexSched ∧
    OpsOK (fun k => [0, 3].getD k 0) 3 (cexSched.scripts.getD 1 []) ∧
    ¬ Balanced (sim cexSched 60) := by decide +kernel

/-- (6) a script registers a script that is not admissible yet as a resource callback. -/
def cexReg : World := lineS [[.register 1 []], [.rewire 2 [0]]]
theorem register_need_needed : C02.Fresh cexReg ∧ DynButScripts (fun k => [0, 3].getD k 0) cexReg ∧
    OpsOK (fun k => [0, 3].getD k 0) 3 (cexReg.scripts.getD 1 []) ∧
    ¬ Balanced (sim cexReg 60) := by decide +kernel

/-- (7) `EventsOK`, scripts: script 1 re-wires to the device script 0 creates, but is queued first. -/
def cexOrder : World :=
  let w := line { scripts := [[.create (.dev { kind := .sink })], [.rewire 2 [0]]] }
  let w := (w.applyOp (.sched 2 0 1 pOtherLow)).1
  (w.applyOp (.sched 20 0 0 pOtherLow)).1
theorem events_script_needed : C02.Fresh cexOrder ∧ ScriptsOK (fun k => [0, 3].getD k 0) cexOrder ∧
    DownOK cexOrder ∧ GinOK cexOrder ∧ CallbacksOK (fun k => [0, 3].getD k 0) cexOrder ∧
    HooksOK (fun k => [0, 3].getD k 0) cexOrder ∧ ¬ Balanced (sim cexOrder 60) := by decide +kernel

/-- (8) `EventsOK`, failures: a failure is queued for a device index that does not exist yet; a
script creates a sink there; the sink fails holding a part that was counted as delivered. -/
def cexFail : World :=
  let w : World := { scripts := [[.create (.dev { kind := .sink, up := [0], cycle := 4 })]] }
  let w := w.addAsset (.dev { kind := .source, cycle := 1, maxParts := some 3 })
  let w := (w.applyOp (.sched 1 0 0 pOtherLow)).1
  (w.sched 6 2 (.fail 1) pFail).1
theorem events_fail_needed : C02.Fresh cexFail ∧ ScriptsOK (fun _ => 0) cexFail ∧
    DownOK cexFail ∧ GinOK cexFail ∧ CallbacksOK (fun _ => 0) cexFail ∧
    HooksOK (fun _ => 0) cexFail ∧ ¬ Balanced (sim cexFail 60) := by decide +kernel

/-- (8b) `EventsOK`, failures: a failure is queued for an existing sink. -/
def cexFailSink : World := ((line {}).sched 6 2 (.fail 1) pFail).1
theorem events_fail_sink_needed : C02.Fresh cexFailSink ∧ ScriptsOK (fun _ => 0) cexFailSink ∧
    DownOK cexFailSink ∧ GinOK cexFailSink ∧ CallbacksOK (fun _ => 0) cexFailSink ∧
    HooksOK (fun _ => 0) cexFailSink ∧ ¬ Balanced (sim cexFailSink 60) := by decide +kernel

/-- (9) `CallbacksOK`: a script that is not admissible yet waits as a resource callback. -/
def cexCb : World := line { scripts := [[.rewire 2 [0]]], rm := { waiting := [([], .script 0)] } }
theorem callbacks_needed : C02.Fresh cexCb ∧ ScriptsOK (fun _ => 3) cexCb ∧
    DownOK cexCb ∧ GinOK cexCb ∧ EventsOK (fun _ => 3) cexCb ∧
    HooksOK (fun _ => 3) cexCb ∧ ¬ Balanced (sim cexCb 60) := by decide +kernel

/-- (10) `HooksOK`: a script that is not admissible yet is the start hook of a maintenance target. -/
def cexHook : World :=
  let w := line { scripts := [[.rewire 2 [0]]], targets := [{ startScript := some 0, params := [(1, 2, 0, 0)] }] }
  let w := w.addAsset (.maint none 100)
  (w.applyOp (.workOrder 0 0 1 0)).1
theorem hooks_needed : C02.Fresh cexHook ∧ ScriptsOK (fun _ => 3) cexHook ∧
    DownOK cexHook ∧ GinOK cexHook ∧ EventsOK (fun _ => 3) cexHook ∧
    CallbacksOK (fun _ => 3) cexHook ∧ ¬ Balanced (sim cexHook 60) := by decide +kernel

/-- (11) `DownOK`: a downstream entry that names no device. -/
def cexWire : World :=
  { devs := [{ kind := .source, cycle := 1, maxParts := some 3, down := [5], aid := 1 }], assets := [.dev 0] }
theorem down_needed : C02.Fresh cexWire ∧ ScriptsOK (fun _ => 0) cexWire ∧
    GinOK cexWire ∧ EventsOK (fun _ => 0) cexWire ∧ CallbacksOK (fun _ => 0) cexWire ∧
    HooksOK (fun _ => 0) cexWire ∧ ¬ Balanced (sim cexWire 60) := by decide +kernel

/-- (12) `GinOK`: a group whose input device does not exist, entered through a group path. -/
def cexGin : World :=
  let w : World := { groups := [{ input := 7 }] }
  let w := w.addAsset (.dev { kind := .source, cycle := 1, maxParts := some 3 })
  w.addAsset (.dev { kind := .gpath, up := [0], group := 0 })
theorem gin_needed : C02.Fresh cexGin ∧ ScriptsOK (fun _ => 0) cexGin ∧
    DownOK cexGin ∧ EventsOK (fun _ => 0) cexGin ∧ CallbacksOK (fun _ => 0) cexGin ∧
    HooksOK (fun _ => 0) cexGin ∧ ¬ Balanced (sim cexGin 60) := by decide +kernel

/-- (13) Why `EventsOK` does not look at the ORDER of the queue: here the creating script (time 2) is
queued before the re-wiring script (time 3), yet a third script (time 1) cancels the creating
event, the re-wiring runs alone and conservation fails. -/
def cexCancel : World :=
  let w := line { scripts := [[.create (.dev { kind := .sink })], [.rewire 2 [0]], [.cancel 7]] }
  let w := (w.applyOp (.sched 1 0 2 pOtherLow)).1
  let w := (w.applyOp (.sched 2 7 0 pOtherLow)).1
  (w.applyOp (.sched 3 0 1 pOtherLow)).1
theorem queue_order_insufficient : C02.Fresh cexCancel ∧ ScriptsOK (fun k => [0, 3, 0].getD k 0) cexCancel ∧
    DownOK cexCancel ∧ GinOK cexCancel ∧ CallbacksOK (fun k => [0, 3, 0].getD k 0) cexCancel ∧
    HooksOK (fun k => [0, 3, 0].getD k 0) cexCancel ∧
    cexCancel.env.events.map (fun e => Action.ofNat e.act) = [.script 2, .script 0, .script 1] ∧
    ¬ Balanced (sim cexCancel 60) := by decide +kernel

/-- Hence conservation fails in each of them. -/
theorem not_cons_cex : ¬ C02.Cons (sim cexRewire 60) ∧ ¬ C02.Cons (sim cexOrder 60) ∧
    ¬ C02.Cons (sim cexFail 60) ∧ ¬ C02.Cons (sim cexWire 60) :=
  ⟨fun h => rewire_range_needed.2.2 (balanced_of_cons h),
   fun h => events_script_needed.2.2.2.2.2.2 (balanced_of_cons h),
   fun h => events_fail_needed.2.2.2.2.2.2 (balanced_of_cons h),
   fun h => down_needed.2.2.2.2.2.2 (balanced_of_cons h)⟩

/-! ### non-vacuity -/

/-- A line source → handler → sink.  Script 0 (run at time 5) creates a processor (device 3) and
a sink fed by it (device 4) and schedules script 1 three time units later; script 1 re-wires the
new processor to be fed by the source.  From then on parts flow through both paths. -/
def exW : World :=
  let w : World := { scripts := [
      [.create (.dev { kind := .processor, cycle := 1 }),
       .create (.dev { kind := .sink, up := [3] }),
       .schedRel 3 0 1 pOtherLow],
      [.rewire 3 [0]] ] }
  let w := w.addAsset (.dev { kind := .source, cycle := 2, maxParts := some 6 })
  let w := w.addAsset (.dev { kind := .handler, up := [0], cycle := 1 })
  let w := w.addAsset (.dev { kind := .sink, up := [1] })
  (w.applyOp (.sched 5 0 0 pOtherLow)).1

/-- script 0 needs the three devices of the line, script 1 the new processor as well -/
def exNeed (k : Nat) : Nat := [3, 4].getD k 0

def exR : World := sim exW 200

/-- The hypotheses hold (also with the computed `need`) … -/
example : C02.Fresh exW ∧ Dyn exNeed exW := by decide +kernel
example : needOf exW.scripts = [2, 4] ∧ DynAuto exW := by decide +kernel
example : Reachable exNeed exW exR := reachable_simulate 200 30 exW
/-- … script 1 is NOT admissible in the initial world (its target does not exist yet) … -/
example : ¬ OpsOK exNeed exW.devs.length (exW.scripts.getD 1 []) := by decide +kernel
/-- … the run completes; two devices were created, the source now feeds the handler and the new
processor, the new processor feeds the new sink … -/
example : exR.error = none ∧ exR.now = 30 ∧ exR.devs.length = 5 ∧
    exR.devs.map (·.down) = [[1, 3], [2], [], [4], []] ∧
    (exR.dev 3).kind = .processor ∧ (exR.dev 4).kind = .sink := by decide +kernel
/-- … parts went through both paths (part 4 through the new one: source 0, processor 3, sink 4) … -/
example : exR.generated = [0, 1, 2, 3, 4, 5, 6] ∧ exR.delivered = [0, 1, 2, 3, 4, 5] ∧
    C02.inside exR = [6] ∧ exR.lost = [] ∧ (exR.part 4).hist = [0, 3, 4] ∧
    (exR.dev 2).recvCount = 5 ∧ (exR.dev 4).recvCount = 1 := by decide +kernel
/-- … and the theorem applied: conservation, evaluated. -/
example : exR.generated.length = (C02.inside exR).length + exR.delivered.length + exR.lost.length ∧
    (C02.mass exR).Nodup :=
  conservation_reachable_dyn (need := exNeed) (by decide +kernel) (by decide +kernel)
    (reachable_simulate 200 30 exW)
example : exR.generated.length = 7 ∧ (C02.inside exR).length + exR.delivered.length + exR.lost.length = 7 := by
  decide +kernel

/-- In the middle of the run (after the creation, before the re-wiring) the class holds, too. -/
example : Dyn exNeed (sim exW 12) ∧ (sim exW 12).devs.length = 5 ∧ (sim exW 12).now = 7 ∧
    (sim exW 12).devs.map (·.down) = [[1], [2], [], [4], []] := by decide +kernel

/-- An external operation list between two runs: create a buffer fed by the source and a sink
behind it — the second constructor call refers to the device the first one creates. -/
def exOps : List Op :=
  [.create (.dev { kind := .buffer, up := [0], cap := some 2 }), .create (.dev { kind := .sink, up := [5] })]
def exR2 : World := runLoop 200 (((sim exW 40).applyOps exOps).runBegin 20).1
example : Reachable exNeed exW exR2 :=
  .loop 200 (.run 20 (.ops exOps (reachable_simulate 40 30 exW) (by decide +kernel)))
example : Balanced exR2 ∧ exR2.devs.length = 7 := by decide +kernel

/-- A failure of the created processor (scheduled by a script AFTER the creation) loses a part,
and conservation accounts for it. -/
def exW3 : World :=
  let w : World := { scripts := [
      [.create (.dev { kind := .processor, up := [0], cycle := 3 }),
       .create (.dev { kind := .sink, up := [2] }),
       .schedFailRel 2 4] ] }
  let w := w.addAsset (.dev { kind := .source, cycle := 1, maxParts := some 4 })
  let w := w.addAsset (.dev { kind := .sink, up := [0], cycle := 5 })
  (w.applyOp (.sched 1 0 0 pOtherLow)).1
example : C02.Fresh exW3 ∧ Dyn (fun _ => 0) exW3 := by decide +kernel
example : (sim exW3 100).lost.length = 1 ∧ Balanced (sim exW3 100) ∧ (sim exW3 100).devs.length = 4 := by
  decide +kernel

/-- A group created while running, with a path inside, entered by the source. -/
def exW4 : World :=
  let w : World := { scripts := [
      [.create (.dev { kind := .handler, cycle := 1 }),          -- device 2
       .create (.dev { kind := .sink, up := [2] }),               -- device 3
       .create (.group 0 [2] [] []),                              -- ginput 4 (feeds 2), goutput 5 (fed by 2)
       .create (.dev { kind := .gpath, up := [0], group := 0 })] ] } -- device 6: the source enters the group
  let w := w.addAsset (.dev { kind := .source, cycle := 1, maxParts := some 4 })
  let w := w.addAsset (.dev { kind := .sink, up := [0], cycle := 6 })
  (w.applyOp (.sched 1 0 0 pOtherLow)).1
example : C02.Fresh exW4 ∧ Dyn (fun _ => 0) exW4 := by decide +kernel
example : Balanced (sim exW4 100) ∧ (sim exW4 100).devs.length = 7 ∧ (sim exW4 100).error = none := by
  decide +kernel

/-- The new upstream list of a re-wiring is unrestricted: here the handler is re-wired to be fed by
the source, by a device that does not exist (99), by the sink (2) and by itself (1). -/
def exW5 : World :=
  let w : World := { scripts := [[.rewire 1 [0, 99, 2, 1]]] }
  let w := w.addAsset (.dev { kind := .source, cycle := 1, maxParts := some 4 })
  let w := w.addAsset (.dev { kind := .handler, up := [0], cycle := 1 })
  let w := w.addAsset (.dev { kind := .sink, up := [1] })
  (w.applyOp (.sched 2 0 0 pOtherLow)).1
example : C02.Fresh exW5 ∧ Dyn (fun _ => 3) exW5 ∧ DynAuto exW5 := by decide +kernel
example : Balanced (sim exW5 100) ∧ (sim exW5 100).delivered.length = 4 ∧
    (sim exW5 100).devs.map (·.down) = [[1], [2, 1], [1]] := by decide +kernel

/-- The budget theorem on the first example: the source (budget 6) supplied exactly 6 parts, through
two different downstream paths. -/
example : C02.Budget exR ∧ BudScripts exR :=
  budget_reachable_dyn (w0 := exW) (by intro d hd; revert d hd; decide +kernel) (by decide +kernel)
    (.loop 200 (.run 30 (.init .start)))
example : (exR.dev 0).produced = 6 ∧ (exR.dev 0).maxParts = some 6 := by decide +kernel

/-! ### the budget adjustment of the model and of the repaired library (finding F16)

`World.adjustParts` clamps the new maximum to the number of produced parts on EVERY adjustment
(`max (m + v) produced`), as the library did before the repair `ddb5098`; the repaired library clamps
only a DECREASE (`m + v`, and `max (m + v) produced` when `v < 0`).  The two differ only when
`m < produced` (a source created with a negative amount).  Under `C02.Budget` -- which holds in every
reachable world (`budget_reachable_dyn`) -- they are the same function. -/

/-- The library's formula after the repair. -/
def libAdjust (m v produced : Int) : Int := if v < 0 then max (m + v) produced else m + v

/-- The model's formula (the body of `World.adjustParts`). -/
def modelAdjust (m v produced : Int) : Int := if m + v < produced then produced else m + v

theorem adjust_model_eq_library (m v produced : Int) (h : produced ≤ m) :
    modelAdjust m v produced = libAdjust m v produced := by
  unfold modelAdjust libAdjust
  split <;> split <;> omega

/-- `World.adjustParts` uses exactly `modelAdjust` for the new maximum. -/
theorem adjustParts_unfold (w : World) (x : Nat) (v m : Int) (hm : (w.dev x).maxParts = some m) :
    w.adjustParts x v =
      (let w1 := w.setDev x { w.dev x with maxParts := some (modelAdjust m v (w.dev x).produced) }
       if decide (m - (w.dev x).produced < 1) then w1.schedulePass x 0 else w1) := by
  unfold World.adjustParts modelAdjust
  simp only [hm]

/-- The two formulas DO differ without the invariant (the situation of finding F16): a deficit of 3,
topped up by 2. -/
theorem adjust_differs_without_budget : modelAdjust (-3) 2 0 = 0 ∧ libAdjust (-3) 2 0 = -1 := by decide

end C02W
end SimProc
