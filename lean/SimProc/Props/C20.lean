/-
C20 — system lifecycle: registration, single initialisation, late-created assets.

Part 1: theorems about `SimProc/Model/System.lean` (which system an asset registers with, who may
simulate, how often an asset is initialised, look-up) for EVERY sequence of `System()` creations,
asset creations, `simulate` calls and look-ups.
Part 2: facts regenerated from the Python sources on every run: assets are registered (and, when
the simulation is already running, initialised) only after all their constructors have finished.
Part 3: in the world model a constructor call on a started system initialises the new asset at
once (`World.addAsset`); that a late-created asset then behaves like the model says is the
correspondence family `sys`.
-/
import SimProc.Model.System
import SimProc.Gen.Facts
import SimProc.Proofs.C20Lemmas

namespace SimProc
namespace C20
open SysM

/-- The invariant: every asset is registered with exactly one system; it has been initialised
exactly once if that system has started simulating, and never otherwise. -/
structure Inv (m : SysM) : Prop where
  latestValid : ∀ i, m.latest = some i → i < m.systems.length
  registered : ∀ a, a < m.infos.length → ∃ i, i < m.systems.length ∧ a ∈ (m.systems.getD i default).assets
  unique : ((m.systems.flatMap (·.assets))).Nodup
  valid : ∀ s ∈ m.systems, ∀ a ∈ s.assets, a < m.infos.length
  initOnce : ∀ i, i < m.systems.length → ∀ a ∈ (m.systems.getD i default).assets,
    (m.infos.getD a default).initCount = if (m.systems.getD i default).inited then 1 else 0

theorem inv_init : Inv {} := by
  refine ⟨?_, ?_, ?_, ?_, ?_⟩ <;> simp

/-- What a successful asset creation does (no invariant needed). -/
private theorem asset_spec (m : SysM) (c : Cls) (n : Nat) (i : Nat) (hl : m.latest = some i) :
    (m.apply (.asset c n)).2 = .ok ∧
    (m.apply (.asset c n)).1.systems =
      m.systems.set i { (m.systems.getD i default) with
        assets := (m.systems.getD i default).assets ++ [m.infos.length] } ∧
    (m.apply (.asset c n)).1.latest = m.latest ∧
    (m.apply (.asset c n)).1.infos.length = m.infos.length + 1 ∧
    (∀ b, b < m.infos.length →
      ((m.apply (.asset c n)).1.infos.getD b default).initCount = (m.infos.getD b default).initCount) ∧
    ((m.apply (.asset c n)).1.infos.getD m.infos.length default).initCount =
      (if (m.systems.getD i default).inited then 1 else 0) := by
  simp only [apply, hl]
  by_cases hin : (m.systems.getD i default).inited = true
  · simp only [hin, if_true]
    refine ⟨by first | rfl | trivial, by first | rfl | trivial, by first | rfl | trivial, by simp, ?_, ?_⟩
    · intro b hb
      rw [bump_initCount]
      have : ¬ m.infos.length = b := by omega
      simp only [this, false_and, if_false, Nat.add_zero]
      rw [getD_append_lt _ _ _ _ hb]
    · rw [bump_initCount]
      simp only [getD_append_self]
      simp
  · have hin' : (m.systems.getD i default).inited = false := by simpa using hin
    simp only [hin', Bool.false_eq_true, if_false]
    refine ⟨by first | rfl | trivial, by first | rfl | trivial, by first | rfl | trivial, by simp, ?_, ?_⟩
    · intro b hb
      rw [getD_append_lt _ _ _ _ hb]
    · simp only [getD_append_self]

/-- What the first `simulate` of the latest system does. -/
private theorem simulate_spec (m : SysM) (i : Nat) (h : Inv m) (hl : m.latest = some i)
    (hin : (m.systems.getD i default).inited = false) :
    (m.apply (.simulate i)).2 = .ok ∧
    (m.apply (.simulate i)).1.systems =
      m.systems.set i { (m.systems.getD i default) with inited := true } ∧
    (m.apply (.simulate i)).1.latest = m.latest ∧
    (m.apply (.simulate i)).1.infos.length = m.infos.length ∧
    (∀ b, ((m.apply (.simulate i)).1.infos.getD b default).initCount =
      (m.infos.getD b default).initCount + (if b ∈ (m.systems.getD i default).assets then 1 else 0)) := by
  have hi := h.latestValid i hl
  simp only [apply, hl, bne_self_eq_false, Bool.false_eq_true, if_false, hin]
  refine ⟨by first | rfl | trivial, by simp, by simp [hl], by simp, ?_⟩
  intro b
  exact foldl_bump_initCount _ m (nodup_assets_of_flat _ h.unique i hi)
    (fun x hx => h.valid _ (getD_mem _ i default hi) x hx) b

private theorem inv_new (m : SysM) (h : Inv m) : Inv (m.apply .new).1 := by
  simp only [apply]
  refine ⟨?_, ?_, ?_, ?_, ?_⟩
  · intro i hi
    simp at hi ⊢
    omega
  · intro a ha
    obtain ⟨i, hi, hm⟩ := h.registered a ha
    refine ⟨i, by simp; omega, ?_⟩
    show a ∈ ((m.systems ++ [({} : SysS)]).getD i default).assets
    rw [getD_append_lt _ _ _ _ hi]
    exact hm
  · simpa [List.flatMap_append] using h.unique
  · intro s hs a ha
    simp at hs
    rcases hs with hs | rfl
    · exact h.valid s hs a ha
    · simp at ha
  · intro i hi a ha
    simp at hi
    change a ∈ ((m.systems ++ [({} : SysS)]).getD i default).assets at ha
    show (m.infos.getD a default).initCount = if ((m.systems ++ [({} : SysS)]).getD i default).inited then 1 else 0
    by_cases hlt : i < m.systems.length
    · rw [getD_append_lt _ _ _ _ hlt] at ha ⊢
      exact h.initOnce i hlt a ha
    · have : i = m.systems.length := by omega
      subst this
      rw [getD_append_self] at ha
      simp at ha

private theorem inv_asset (m : SysM) (c : Cls) (n : Nat) (h : Inv m) :
    Inv (m.apply (.asset c n)).1 := by
  rcases hl : m.latest with _ | i
  · simpa [apply, hl] using h
  · obtain ⟨_, hsys, hlat, hlen, hold, hnew⟩ := asset_spec m c n i hl
    have hi := h.latestValid i hl
    have hfresh : m.infos.length ∉ m.systems.flatMap (·.assets) := by
      intro hmem
      obtain ⟨s, hs, ha⟩ := List.mem_flatMap.mp hmem
      exact Nat.lt_irrefl _ (h.valid s hs _ ha)
    refine ⟨?_, ?_, ?_, ?_, ?_⟩
    · intro j hj
      rw [hsys, List.length_set]
      exact h.latestValid j (by rw [← hlat]; exact hj)
    · intro a ha
      rw [hsys, List.length_set]
      by_cases hlt : a < m.infos.length
      · obtain ⟨j, hj, hm⟩ := h.registered a hlt
        refine ⟨j, hj, ?_⟩
        rw [getD_set]
        by_cases hij : i = j
        · subst hij
          rw [if_pos ⟨rfl, hi⟩]
          exact List.mem_append_left _ hm
        · rw [if_neg (fun h => hij h.1)]
          exact hm
      · have : a = m.infos.length := by omega
        subst this
        refine ⟨i, hi, ?_⟩
        rw [getD_set, if_pos ⟨rfl, hi⟩]
        exact List.mem_append_right _ (List.mem_singleton.mpr rfl)
    · rw [hsys, (flatMap_set_perm m.systems i _ m.infos.length hi rfl).nodup_iff, List.nodup_cons]
      exact ⟨hfresh, h.unique⟩
    · intro s hs a ha
      rw [hlen]
      rw [hsys] at hs
      rcases List.mem_or_eq_of_mem_set hs with hs | rfl
      · exact Nat.lt_succ_of_lt (h.valid s hs a ha)
      · simp only [List.mem_append, List.mem_singleton] at ha
        rcases ha with ha | rfl
        · exact Nat.lt_succ_of_lt (h.valid _ (getD_mem _ i default hi) a ha)
        · omega
    · intro j hj a ha
      rw [hsys, List.length_set] at hj
      rw [hsys, getD_set] at ha
      rw [hsys, getD_set]
      by_cases hij : i = j
      · subst hij
        simp only [hi, and_self, if_true] at ha ⊢
        simp only [List.mem_append, List.mem_singleton] at ha
        rcases ha with ha | rfl
        · rw [hold a (h.valid _ (getD_mem _ i default hi) a ha)]
          exact h.initOnce i hi a ha
        · exact hnew
      · simp only [hij, false_and, if_false] at ha ⊢
        rw [hold a (h.valid _ (getD_mem _ j default hj) a ha)]
        exact h.initOnce j hj a ha

private theorem inv_simulate (m : SysM) (i : Nat) (h : Inv m) : Inv (m.apply (.simulate i)).1 := by
  by_cases hl : m.latest = some i
  · by_cases hin : (m.systems.getD i default).inited = true
    · simpa [apply, hl, hin, -List.getD_eq_getElem?_getD] using h
    · have hin' : (m.systems.getD i default).inited = false := by simpa using hin
      obtain ⟨_, hsys, hlat, hlen, hcnt⟩ := simulate_spec m i h hl hin'
      have hi := h.latestValid i hl
      have hflat : (m.apply (.simulate i)).1.systems.flatMap (·.assets) = m.systems.flatMap (·.assets) := by
        rw [hsys]
        exact flatMap_set_same _ _ _ rfl
      refine ⟨?_, ?_, ?_, ?_, ?_⟩
      · intro j hj
        rw [hsys, List.length_set]
        exact h.latestValid j (by rw [← hlat]; exact hj)
      · intro a ha
        rw [hlen] at ha
        rw [hsys, List.length_set]
        obtain ⟨j, hj, hm⟩ := h.registered a ha
        refine ⟨j, hj, ?_⟩
        rw [getD_set]
        by_cases hij : i = j
        · subst hij
          rw [if_pos ⟨rfl, hi⟩]
          exact hm
        · rw [if_neg (fun h => hij h.1)]
          exact hm
      · rw [hflat]
        exact h.unique
      · intro s hs a ha
        rw [hlen]
        rw [hsys] at hs
        rcases List.mem_or_eq_of_mem_set hs with hs | rfl
        · exact h.valid s hs a ha
        · exact h.valid _ (getD_mem _ i default hi) a ha
      · intro j hj a ha
        rw [hsys, List.length_set] at hj
        rw [hsys, getD_set] at ha
        rw [hsys, getD_set, hcnt a]
        by_cases hij : i = j
        · subst hij
          simp only [hi, and_self, if_true] at ha ⊢
          have := h.initOnce i hi a ha
          simp [this, hin', ha, -List.getD_eq_getElem?_getD]
        · simp only [hij, false_and, if_false] at ha ⊢
          have hna : a ∉ (m.systems.getD i default).assets :=
            fun hai => disjoint_of_flat _ h.unique i j hi hj hij a hai ha
          simp only [hna, if_false, Nat.add_zero]
          exact h.initOnce j hj a ha
  · have : (m.latest != some i) = true := by simpa using hl
    simpa [apply, this] using h

theorem inv_apply (m : SysM) (op : SOp) (h : Inv m) : Inv (m.apply op).1 := by
  cases op with
  | new => exact inv_new m h
  | asset c n => exact inv_asset m c n h
  | simulate i => exact inv_simulate m i h
  | find i name id t st => simpa [apply] using h

private theorem inv_applyAll (m : SysM) (ops : List SOp) (h : Inv m) : Inv (m.applyAll ops) := by
  induction ops generalizing m with
  | nil => exact h
  | cons op ops ih => exact ih _ (inv_apply m op h)

theorem inv_reachable (ops : List SOp) : Inv (({} : SysM).applyAll ops) :=
  inv_applyAll _ ops inv_init

/-- Under the invariant every initialisation count is at most one. -/
private theorem initCount_le_one (m : SysM) (h : Inv m) (a : Nat) :
    (m.infos.getD a default).initCount ≤ 1 := by
  by_cases ha : a < m.infos.length
  · obtain ⟨i, hi, hm⟩ := h.registered a ha
    rw [h.initOnce i hi a hm]
    split <;> omega
  · have : m.infos.getD a default = default := by
      rw [List.getD_eq_getElem?_getD, List.getElem?_eq_none (by omega)]
      rfl
    rw [this]
    show (0 : Nat) ≤ 1
    omega

/-- Initialised at most once, whatever happens (continuing a simulation never re-initialises). -/
theorem init_at_most_once (ops : List SOp) (a : Nat) :
    ((({} : SysM).applyAll ops).infos.getD a default).initCount ≤ 1 :=
  initCount_le_one _ (inv_reachable ops) a

/-- A new asset registers with the most recently created system (and with no other), and is
initialised immediately iff that system has already started simulating. -/
theorem registers_with_latest (m : SysM) (c : Cls) (n : Nat) (i : Nat) (h : Inv m) (hl : m.latest = some i) :
    let m' := (m.apply (.asset c n)).1
    (m.apply (.asset c n)).2 = .ok ∧
    m'.infos.length = m.infos.length + 1 ∧
    (m'.systems.getD i default).assets = (m.systems.getD i default).assets ++ [m.infos.length] ∧
    (∀ j, j ≠ i → m'.systems.getD j default = m.systems.getD j default) ∧
    (m'.infos.getD m.infos.length default).initCount = (if (m.systems.getD i default).inited then 1 else 0) := by
  obtain ⟨hok, hsys, _, hlen, _, hnew⟩ := asset_spec m c n i hl
  have hi := h.latestValid i hl
  refine ⟨hok, hlen, ?_, ?_, hnew⟩
  · show ((m.apply (.asset c n)).1.systems.getD i default).assets = _
    rw [hsys, getD_set]
    simp [hi]
  · intro j hj
    show (m.apply (.asset c n)).1.systems.getD j default = _
    rw [hsys, getD_set]
    have : ¬ i = j := fun e => hj e.symm
    simp [this]

/-- Without a system, creating a (non-transitory) asset is an error and changes nothing. -/
theorem asset_without_system (m : SysM) (c : Cls) (n : Nat) (hl : m.latest = none) :
    m.apply (.asset c n) = (m, .err) := by
  simp [apply, hl]

/-- Only the most recently created system can simulate: anything else is an error and changes
nothing. -/
theorem only_latest_simulates (m : SysM) (i : Nat) (h : m.latest ≠ some i) :
    m.apply (.simulate i) = (m, .err) := by
  simp [apply, h]

/-- Continuing a simulation changes no initialisation count (nothing is re-initialised). -/
theorem resimulate_noop (m : SysM) (i : Nat) (hl : m.latest = some i)
    (hi : (m.systems.getD i default).inited = true) : m.apply (.simulate i) = (m, .ok) := by
  simp [apply, hl, hi, -List.getD_eq_getElem?_getD]

/-- Look-up returns exactly the registered assets matching all given filters, in registration
order, and changes nothing. -/
theorem find_is_filter (m : SysM) (i : Nat) (name id : Option Nat) (t st : Option Cls) :
    (m.apply (.find i name id t st)).1 = m ∧
    ∀ l, (m.apply (.find i name id t st)).2 = .found l →
      (∀ a, a ∈ l ↔ a ∈ (m.systems.getD i default).assets ∧
        (∀ n, name = some n → (m.infos.getD a default).name = n) ∧
        (∀ k, id = some k → a = k) ∧
        (∀ c, t = some c → (m.infos.getD a default).cls = c) ∧
        (∀ c, st = some c → (m.infos.getD a default).cls.isSub c = true)) ∧
      l.Sublist (m.systems.getD i default).assets := by
  refine ⟨rfl, ?_⟩
  intro l hl
  simp only [apply, SRes.found.injEq] at hl
  subst hl
  refine ⟨?_, List.filter_sublist⟩
  intro a
  rw [List.mem_filter]
  refine and_congr_right (fun _ => ?_)
  unfold isMatch
  simp only [Bool.and_eq_true, and_assoc]
  refine and_congr ?_ (and_congr ?_ (and_congr ?_ ?_))
  · cases name <;> simp <;> exact eq_comm
  · cases id <;> simp <;> exact eq_comm
  · cases t <;> simp
  · cases st <;> simp

/-! ### Part 2: regenerated facts -/

/-- No constructor registers the asset itself; registration happens in the metaclass `__call__`
after all constructors have finished; `System.add_asset` initialises at once when the simulation
is initialised; `simulate` refuses on a stale system and initialises exactly once. -/
theorem registration_facts :
    Gen.ctorRegisters = [] ∧ Gen.registersAfterConstruction = true ∧
    Gen.addAssetInitialisesWhenRunning = true ∧ Gen.simulateGuardsLatest = true ∧
    Gen.simulateInitialisesOnce = true := by
  decide

/-! ### non-vacuity -/
example :
    let m := ({} : SysM).applyAll [.new, .asset .processor 1, .simulate 0, .asset .sink 2, .new, .asset .sink 3,
                                    .simulate 0, .simulate 1, .simulate 1]
    (m.infos.map (·.initCount) = [1, 1, 1]) ∧ (m.apply (.simulate 0)).2 = .err ∧
    (m.apply (.find 0 none none none (some .handler))).2 = .found [0, 1] := by
  decide

end C20
end SimProc
