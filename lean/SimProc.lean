import SimProc.Model.Env
import SimProc.Model.Basic
import SimProc.Model.World
import SimProc.Proofs.EnvLemmas
import SimProc.Props.C01
import SimProc.Props.C07
import SimProc.Props.Facts
