import SimProc.Model.Env
import SimProc.Proofs.EnvLemmas
