/-
Class membership reporter (`spclass`).

Reads the same scenario files as `spdriver`.  For every scenario it builds the INITIAL world with
`spdriver`'s own line handler (`handle` of `DriverLib.lean`: the set-up lines `seed`, `idoff`, `res`,
`asset`, `target`, `var`, `wire`, `script` up to, but excluding, the first `run` / `step` / `ext` /
`S` line; whatever `handle` would print is discarded) and prints one line

    class <scenario-id> C01W=1 C02=1 … C20W=1 extops=<k>

with the flags of `classReport` (`Classes.lean`) and `extops` = the number of `ext` lines other than
plain `ext sched …` lines (operations issued from outside between events).  Scenarios that consist of
`S …` lifecycle lines only, or contain a `tick` line (decimal time streams), print
`class <scenario-id> skipped`.
-/
import DriverLib
import Classes
open SimProc

/-- A stream that swallows everything (for the messages `handle` prints). -/
def nullStream : IO.FS.Stream where
  flush := pure ()
  read := fun _ => pure ByteArray.empty
  write := fun _ => pure ()
  getLine := pure ""
  putStr := fun _ => pure ()
  isTty := pure false

/-- `handle`, silently. -/
def handleQuiet (s : DState) (toks : List String) : IO DState := do
  let old ← IO.setStdout nullStream
  try handle s toks finally discard (IO.setStdout old)

structure CState where
  /-- a scenario is open and its line has not been printed yet -/
  isOpen : Bool := false
  id : String := "-"
  d : DState := {}
  /-- still reading set-up lines -/
  setup : Bool := true
  extops : Nat := 0
  sawTick : Bool := false
  sawS : Bool := false
  /-- saw a line other than `S …` (and `end`) -/
  sawOther : Bool := false

def b01' (b : Bool) : String := if b then "1" else "0"

def emit (c : CState) : IO Unit := do
  if !c.isOpen then return
  if c.sawTick || (c.sawS && !c.sawOther) then
    IO.println s!"class {c.id} skipped"
  else
    let fl := (classReport c.d.w).map (fun (n, b) => s!"{n}={b01' b}")
    IO.println (s!"class {c.id} " ++ " ".intercalate fl ++ s!" extops={c.extops}")
  (← IO.getStdout).flush

def isSetupLine : List String → Bool
  | "seed" :: _ | "idoff" :: _ | "res" :: _ | "asset" :: _ | "target" :: _ | "var" :: _
  | "wire" :: _ | "script" :: _ => true
  | _ => false

def cstep (c : CState) (toks : List String) : IO CState := do
  match toks with
  | [] => return c
  | "scenario" :: rest =>
    emit c
    return { isOpen := true, id := rest.headD "-" }
  | ["end"] =>
    emit c
    return { c with isOpen := false }
  | _ =>
    let c := { c with isOpen := true }
    match toks with
    | "tick" :: _ => return { c with sawTick := true, sawOther := true }
    | "S" :: _ => return { c with sawS := true, setup := false }
    | "run" :: _ | "step" :: _ => return { c with sawOther := true, setup := false }
    | "ext" :: rest =>
      let plain := rest.head? == some "sched"
      return { c with sawOther := true, setup := false,
                      extops := if plain then c.extops else c.extops + 1 }
    | _ =>
      let c := { c with sawOther := true }
      if c.setup && isSetupLine toks then
        return { c with d := (← handleQuiet c.d toks) }
      else return c

partial def cloop (h : IO.FS.Stream) (c : CState) : IO Unit := do
  let line ← h.getLine
  if line.isEmpty then emit c; return ()
  let toks := (line.trimAscii.toString.splitOn " ").filter (· ≠ "")
  cloop h (← cstep c toks)

def main : IO Unit := do
  cloop (← IO.getStdin) {}
